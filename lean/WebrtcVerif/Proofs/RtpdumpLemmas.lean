import WebrtcVerif.Model.Rtpdump
/-!
  Helper lemmas about the rtpdump model (`Model/Rtpdump.lean`) used by `Props/C36.lean`.
-/
namespace WebrtcVerif.Rtpdump
open WebrtcVerif.Bytes

/-! ### packets: `next`, `readAll`, `Packet.marshal`, `writePackets` -/

theorem readFull8_cons (l0 l1 q0 q1 o0 o1 o2 o3 : Byte) (rest : Bs) :
    readFull 8 (l0 :: l1 :: q0 :: q1 :: o0 :: o1 :: o2 :: o3 :: rest) = .ok [l0, l1, q0, q1, o0, o1, o2, o3] rest := by
  simp [readFull]

theorem next_short (l0 l1 q0 q1 o0 o1 o2 o3 : Byte) (rest : Bs) (h : rd16be l0 l1 < 8) :
    next (l0 :: l1 :: q0 :: q1 :: o0 :: o1 :: o2 :: o3 :: rest) = .error .malformed := by
  unfold next; rw [readFull8_cons]; simp [h]

theorem next_ok (l0 l1 q0 q1 o0 o1 o2 o3 : Byte) (rest payload rest' : Bs) (h : ¬ rd16be l0 l1 < 8)
    (hr : readFull (rd16be l0 l1 - 8) rest = .ok payload rest') :
    next (l0 :: l1 :: q0 :: q1 :: o0 :: o1 :: o2 :: o3 :: rest) =
      .ok ({ offsetNanos := (rd32be o0 o1 o2 o3 : Int) * 1000000, isRTCP := rd16be q0 q1 == 0, payload }, rest') := by
  unfold next; rw [readFull8_cons]; simp [h, hr]

theorem readAll_eq (s : Bs) : readAll s = match next s with
    | .error e => ([], e)
    | .ok (p, r) => (p :: (readAll r).1, (readAll r).2) := by
  rw [readAll]
  split <;> simp [*]

theorem readAll_nil : readAll [] = ([], .eof) := by
  rw [readAll_eq]; simp [next, readFull]

theorem readFull_ok_inv (n : Nat) (s a r : Bs) (h : readFull n s = .ok a r) :
    s = a ++ r ∧ a.length = n := by
  unfold readFull at h
  split at h
  · injection h with h1 h2
    subst h1; subst h2
    simp; omega
  · split at h <;> cases h

theorem readFull_ok_of_le (n : Nat) (s : Bs) (h : n ≤ s.length) :
    readFull n s = .ok (s.take n) (s.drop n) := by
  simp [readFull, h]

theorem marshal_ok (p : Packet) (h2 : p.payload.length ≤ 65527)
    (h3 : 0 ≤ p.offsetNanos) (h5 : p.offsetNanos / 1000000 ≤ 4294967295) :
    p.marshal = .ok (be16 (p.payload.length + 8) ++ be16 (if p.isRTCP then 0 else p.payload.length)
      ++ be32 (p.offsetNanos / 1000000).toNat ++ p.payload) := by
  unfold Packet.marshal
  rw [if_neg (by simp [maxPayloadLen]; omega), if_neg (by simp [maxU32]; omega)]

/-- packet round trip, in the model's own terms -/
theorem next_marshal (p : Packet) (rest : Bs)
    (h1 : 1 ≤ p.payload.length) (h2 : p.payload.length ≤ 65527)
    (h3 : 0 ≤ p.offsetNanos) (h4 : p.offsetNanos % 1000000 = 0) (h5 : p.offsetNanos / 1000000 ≤ 4294967295) :
    ∃ d, p.marshal = .ok d ∧ next (d ++ rest) = .ok (p, rest) := by
  refine ⟨_, marshal_ok p h2 h3 h5, ?_⟩
  obtain ⟨off, rtcp, payload⟩ := p
  simp only at h1 h2 h3 h4 h5
  simp only [be16, be32, List.cons_append, List.nil_append]
  have hlen : rd16be (b ((payload.length + 8) / 256)) (b (payload.length + 8)) = payload.length + 8 := by
    rw [rd16be_be16]; omega
  rw [next_ok (payload := payload) (rest' := rest)]
  · congr 2
    congr 1
    · rw [rd32be_be32]; omega
    · cases rtcp
      · simp [rd16be_be16]; omega
      · simp [rd16be]
  · rw [hlen]; omega
  · rw [hlen]; simp [readFull]

theorem writePackets_ok (ps : List Packet) (i : Nat) (acc : Bs)
    (hp : ∀ p ∈ ps, ∃ d, p.marshal = .ok d ∧ ∀ rest, next (d ++ rest) = .ok (p, rest)) :
    ∃ body, writePackets ps i acc = (acc ++ body, none) ∧ readAll body = (ps, .eof) := by
  induction ps generalizing i acc with
  | nil => exact ⟨[], by simp [writePackets], readAll_nil⟩
  | cons p ps ih =>
    obtain ⟨d, hd, hn⟩ := hp p (by simp)
    obtain ⟨body, hb, hr⟩ := ih (i + 1) (acc ++ d) (fun q hq => hp q (by simp [hq]))
    refine ⟨d ++ body, ?_, ?_⟩
    · simp [writePackets, hd, hb]
    · rw [readAll_eq, hn body]; simp [hr]

theorem writePackets_refuse (ps : List Packet) (p : Packet) (qs : List Packet) (i : Nat) (acc : Bs)
    (hps : ∀ q ∈ ps, ∃ d, q.marshal = .ok d) (hp : ∃ e, p.marshal = .error e) :
    ∃ bytes, writePackets ps i acc = (bytes, none) ∧
      writePackets (ps ++ p :: qs) i acc = (bytes, some (i + ps.length)) := by
  induction ps generalizing i acc with
  | nil =>
    obtain ⟨e, he⟩ := hp
    exact ⟨acc, by simp [writePackets], by simp [writePackets, he]⟩
  | cons q ps ih =>
    obtain ⟨d, hd⟩ := hps q (by simp)
    obtain ⟨bytes, h1, h2⟩ := ih (i + 1) (acc ++ d) (fun q hq => hps q (by simp [hq]))
    refine ⟨bytes, ?_, ?_⟩
    · simp [writePackets, hd, h1]
    · simp [writePackets, hd, h2]; omega

theorem marshal_refuses (p : Packet)
    (hp : 65527 < p.payload.length ∨ p.offsetNanos < 0 ∨ 4294967295 < p.offsetNanos / 1000000) :
    p.marshal = .error .unrepresentable := by
  unfold Packet.marshal
  split
  · rfl
  · rw [if_pos]
    simp only [maxPayloadLen, maxU32] at *
    omega

theorem next_payload_exact (s : Bs) (p : Packet) (r : Bs) (h : next s = .ok (p, r)) :
    ∃ l0 l1 q0 q1 o0 o1 o2 o3, s = [l0, l1, q0, q1, o0, o1, o2, o3] ++ p.payload ++ r ∧
      rd16be l0 l1 = p.payload.length + 8 := by
  unfold next at h
  cases hr : readFull 8 s with
  | eof => simp [hr] at h
  | short => simp [hr] at h
  | ok hb rest =>
    obtain ⟨hs, hlen⟩ := readFull_ok_inv _ _ _ _ hr
    rw [hr] at h
    simp only at h
    match hb, hlen with
    | [l0, l1, q0, q1, o0, o1, o2, o3], _ =>
      simp only at h
      split at h
      · cases h
      · rename_i hl
        cases hr2 : readFull (rd16be l0 l1 - 8) rest with
        | eof => simp [hr2] at h
        | short => simp [hr2] at h
        | ok payload rest' =>
          rw [hr2] at h
          simp only at h
          injection h with h; injection h with h1 h2
          subst h1; subst h2
          obtain ⟨hs2, hlen2⟩ := readFull_ok_inv _ _ _ _ hr2
          refine ⟨l0, l1, q0, q1, o0, o1, o2, o3, ?_, ?_⟩
          · rw [hs, hs2]; simp
          · simp only; omega

/-! ### binary header -/

theorem header_marshal_ok (st : Int) (a b' c d : Byte) (port : Nat)
    (h0 : 0 ≤ st) (h2 : st / 1000000000 ≤ 4294967295) :
    Header.marshal { startNanos := st, source := some (a, b', c, d), port := port } =
      .ok (be32 (st / 1000000000).toNat ++ be32 ((st % 1000000000) / 1000).toNat ++ [a, b', c, d]
        ++ be16 port ++ [0, 0]) := by
  unfold Header.marshal
  rw [if_neg (by simp [second, maxU32]; omega)]
  rfl

theorem header_roundtrip (st : Int) (a b' c d : Byte) (port : Nat) (hport : port < 65536)
    (h0 : 0 ≤ st) (h1 : st % 1000 = 0) (h2 : st / 1000000000 ≤ 4294967295) :
    ∃ hd, Header.marshal { startNanos := st, source := some (a, b', c, d), port := port } = .ok hd ∧
      hd.length = 16 ∧
      Header.unmarshal hd = some { startNanos := st, source := some (a, b', c, d), port := port } := by
  refine ⟨_, header_marshal_ok st a b' c d port h0 h2, by simp, ?_⟩
  simp only [be16, be32, List.cons_append, List.nil_append, Header.unmarshal]
  rw [rd32be_be32, rd32be_be32, rd16be_be16]
  congr 2
  · simp only [second]; omega
  · omega

theorem header_marshal_refuses (h : Header) (hh : h.startNanos < 0 ∨ 4294967295 < h.startNanos / 1000000000) :
    h.marshal = .error .unrepresentable := by
  unfold Header.marshal
  rw [if_pos (by simp only [second, maxU32]; omega)]

theorem newWriter_refuses (h : Header)
    (hh : h.source = none ∨ h.startNanos < 0 ∨ 4294967295 < h.startNanos / 1000000000) :
    newWriter h = .error .unrepresentable := by
  unfold newWriter
  split
  · rfl
  · rename_i hs
    rcases hh with hh | hh
    · simp [hh] at hs
    · rw [header_marshal_refuses h hh]

/-! ### text preamble -/

theorem digits_isDigit (n : Nat) : ∀ x ∈ digits n, isDigit x = true := by
  unfold digits
  split
  · simp [isDigit]; omega
  · split
    · simp [isDigit]; omega
    · split
      · simp [isDigit]; omega
      · split
        · simp [isDigit]; omega
        · simp [isDigit]; omega

theorem digits_length_pos (n : Nat) : 1 ≤ (digits n).length := by
  unfold digits; repeat' split
  all_goals simp

theorem digits_length_le5 (n : Nat) : (digits n).length ≤ 5 := by
  unfold digits; repeat' split
  all_goals simp

theorem digits_length_le3 (n : Nat) (h : n < 1000) : (digits n).length ≤ 3 := by
  unfold digits; repeat' split
  all_goals first | (simp; done) | omega

theorem digitsUpTo_append (k : Nat) (ds : Bs) (x : Byte) (rest : Bs)
    (hd : ∀ y ∈ ds, isDigit y = true) (hpos : 1 ≤ ds.length) (hle : ds.length ≤ k)
    (hx : isDigit x = false) : digitsUpTo k (ds ++ x :: rest) = some (x :: rest) := by
  induction k generalizing ds with
  | zero => omega
  | succ k ih =>
    match ds with
    | [] => simp at hpos
    | [y] =>
      have hy := hd y (by simp)
      simp [digitsUpTo, hy, hx]
    | y :: z :: ds' =>
      have hy := hd y (by simp)
      have hz := hd z (by simp)
      have := ih (z :: ds') (fun w hw => hd w (by simp [hw])) (by simp) (by simpa using hle)
      simpa [digitsUpTo, hy, hz] using this

theorem lit_append (l s : Bs) : lit l (l ++ s) = some s := by
  simp [lit]

theorem dropLine_append (l rest : Bs) (h : ∀ y ∈ l, y ≠ 10) : dropLine (l ++ 10 :: rest) = rest := by
  induction l with
  | nil => simp [dropLine]
  | cons y l ih =>
    have hy := h y (by simp)
    simp [dropLine, hy, ih (fun w hw => h w (by simp [hw]))]

theorem matchPreamble_of_here (s : Bs) (h : matchPreambleHere s = true) : matchPreamble s = true := by
  cases s with
  | nil => simp [matchPreambleHere, lit, magic] at h
  | cons x t => simp [matchPreamble, h]

theorem isDigit_ne10 (y : Byte) (h : isDigit y = true) : y ≠ 10 := by
  intro e; subst e; simp [isDigit] at h

/-- the preamble, re-associated to the right -/
theorem preamble_eq (a b' c d : Byte) (port : Nat) (rest : Bs) :
    preamble a b' c d port ++ rest =
      magic ++ (digits a.toNat ++ 46 :: (digits b'.toNat ++ 46 :: (digits c.toNat ++ 46 ::
        (digits d.toNat ++ 47 :: (digits port ++ 10 :: rest))))) := by
  simp [preamble]

theorem matchPreambleHere_preamble (a b' c d : Byte) (port : Nat) (rest : Bs) :
    matchPreambleHere (preamble a b' c d port ++ rest) = true := by
  rw [preamble_eq]
  have h3 : ∀ (x : Byte), (digits x.toNat).length ≤ 3 := fun x => digits_length_le3 _ (by have := x.toNat_lt; omega)
  have lit1 : ∀ (x : Byte) (s : Bs), lit [x] (x :: s) = some s := fun x s => lit_append [x] s
  unfold matchPreambleHere
  simp only [lit_append, Option.bind_eq_bind, Option.bind_some]
  rw [digitsUpTo_append 3 _ 46 _ (digits_isDigit _) (digits_length_pos _) (h3 a) (by decide)]
  simp only [Option.bind_some, lit1]
  rw [digitsUpTo_append 3 _ 46 _ (digits_isDigit _) (digits_length_pos _) (h3 b') (by decide)]
  simp only [Option.bind_some, lit1]
  rw [digitsUpTo_append 3 _ 46 _ (digits_isDigit _) (digits_length_pos _) (h3 c) (by decide)]
  simp only [Option.bind_some, lit1]
  rw [digitsUpTo_append 3 _ 47 _ (digits_isDigit _) (digits_length_pos _) (h3 d) (by decide)]
  simp only [Option.bind_some, lit1]
  rw [digitsUpTo_append 5 _ 10 _ (digits_isDigit _) (digits_length_pos _) (digits_length_le5 _) (by decide)]
  simp [lit1]

theorem preamble_length_le (a b' c d : Byte) (port : Nat) : (preamble a b' c d port).length ≤ 35 := by
  have h3 : ∀ (x : Byte), (digits x.toNat).length ≤ 3 := fun x => digits_length_le3 _ (by have := x.toNat_lt; omega)
  have := h3 a; have := h3 b'; have := h3 c; have := h3 d; have := digits_length_le5 port
  simp [preamble, magic]; omega

theorem preamble_length_ge (a b' c d : Byte) (port : Nat) : 23 ≤ (preamble a b' c d port).length := by
  have := digits_length_pos a.toNat; have := digits_length_pos b'.toNat
  have := digits_length_pos c.toNat; have := digits_length_pos d.toNat; have := digits_length_pos port
  simp [preamble, magic]; omega

theorem dropLine_preamble (a b' c d : Byte) (port : Nat) (rest : Bs) :
    dropLine (preamble a b' c d port ++ rest) = rest := by
  have : preamble a b' c d port ++ rest =
      (magic ++ digits a.toNat ++ [46] ++ digits b'.toNat ++ [46] ++ digits c.toNat ++ [46] ++ digits d.toNat
        ++ [47] ++ digits port) ++ 10 :: rest := by simp [preamble]
  rw [this]
  apply dropLine_append
  intro y hy
  simp only [List.mem_append, List.mem_singleton] at hy
  have dg : ∀ n, y ∈ digits n → y ≠ 10 := fun n h => isDigit_ne10 y (digits_isDigit n y h)
  rcases hy with ((((((((hy | hy) | hy) | hy) | hy) | hy) | hy) | hy) | hy) | hy
  · revert hy; simp only [magic]; intro hy; intro e; subst e; revert hy; decide
  all_goals first | exact dg _ hy | (subst hy; decide)

theorem matchPreamble_take (a b' c d : Byte) (port : Nat) (rest : Bs) :
    matchPreamble ((preamble a b' c d port ++ rest).take preambleLen) = true := by
  have hle := preamble_length_le a b' c d port
  rw [List.take_append, List.take_of_length_le (by simp only [preambleLen]; omega)]
  exact matchPreamble_of_here _ (matchPreambleHere_preamble ..)

/-! ### `newReader` on what `newWriter` wrote -/

theorem newReader_preamble (a b' c d : Byte) (port : Nat) (hd body : Bs) (h : Header)
    (hlen : hd.length = 16) (hu : Header.unmarshal hd = some h) :
    newReader (preamble a b' c d port ++ hd ++ body) = .ok (h, body) := by
  have hge := preamble_length_ge a b' c d port
  unfold newReader
  rw [if_neg (by simp only [preambleLen, List.length_append]; omega)]
  rw [List.append_assoc, matchPreamble_take, dropLine_preamble]
  rw [← hlen, readFull_append]
  simp [hu]

end WebrtcVerif.Rtpdump
