import WebrtcVerif.Proofs.JsepStability
/-! C09 for renegotiation histories: one complete offer/answer round between the two modelled peers, and
    the induction over rounds of local changes followed by an exchange (both peers offering in any order). -/
namespace WebrtcVerif.Jsep

/-! ### one complete offer/answer round between the two peers -/

theorem engineUpdate_eq (d : Desc) : ∀ (st : St),
    ∃ na nv, engineUpdate st d = { st with negAudio := na, negVideo := nv } := by
  unfold engineUpdate
  generalize d.secs = secs
  induction secs with
  | nil => intro st; exact ⟨st.negAudio, st.negVideo, rfl⟩
  | cons s rest ih =>
    intro st
    simp only [List.foldl_cons]
    obtain ⟨na, nv, e⟩ := ih (engineStep st s)
    rw [e]
    unfold engineStep
    split
    · exact ⟨na, nv, rfl⟩
    · exact ⟨na, nv, rfl⟩
    · exact ⟨na, nv, rfl⟩

theorem setLocal_offer_eq {st : St} {n : Nat} {O : Desc} (ht : O.typ = .offer) (hl : st.lastOffer = some n)
    (hs : st.sig = .stable) :
    setLocal st n O = ({ st with sig := .haveLocalOffer, pendLocal := some O }, .ok ()) := by
  unfold setLocal setDescLocal
  simp [ht, hl, hs]

theorem setLocal_answer_eq {st : St} {n : Nat} {A : Desc} (ht : A.typ = .answer) (hl : st.lastAnswer = some n)
    (hs : st.sig = .haveRemoteOffer) :
    ∃ trs, setLocal st n A =
      ({ st with sig := .stable, curLocal := some A, curRemote := st.pendRemote, pendRemote := none, pendLocal := none,
                 trs := trs }, .ok ()) := by
  unfold setLocal setDescLocal
  simp only [ht, hl, hs, bne_self_eq_false, Bool.false_eq_true, if_false, if_true]
  split
  · exact ⟨_, rfl⟩
  · exact ⟨st.trs, rfl⟩

theorem setRemote_offer_ok {st : St} {O : Desc} (ht : O.typ = .offer) (hs : st.sig = .stable)
    (hok : (setRemote st O).2 = .ok ()) :
    ∃ trs na nv, (setRemote st O).1 =
      { st with sig := .haveRemoteOffer, pendRemote := some O, trs := trs, negAudio := na, negVideo := nv } := by
  obtain ⟨st1, h1, h2⟩ := setRemote_success hok
  have hd : setDescRemote st O = .ok { st with sig := .haveRemoteOffer, pendRemote := some O } := by
    unfold setDescRemote; simp [ht, hs]
  rw [hd] at h1
  simp only [Except.ok.injEq] at h1
  subst h1
  obtain ⟨na, nv, e⟩ := engineUpdate_eq O { st with sig := .haveRemoteOffer, pendRemote := some O }
  rcases h2 with ⟨_, h2⟩ | ⟨h, _⟩
  · rw [h2, e]; exact ⟨_, na, nv, rfl⟩
  · rw [ht] at h; cases h

/-- setDescription for a remote answer in have-local-offer -/
def afterRemoteAnswer (st : St) (A : Desc) : St :=
  { st with sig := .stable, curRemote := some A, curLocal := st.pendLocal, pendRemote := none, pendLocal := none }

theorem setRemote_answer_ok {st : St} {A : Desc} (ht : A.typ = .answer) (hs : st.sig = .haveLocalOffer)
    (hok : (setRemote st A).2 = .ok ()) :
    ∃ trs na nv, (setRemote st A).1 = { afterRemoteAnswer st A with trs := trs, negAudio := na, negVideo := nv } := by
  obtain ⟨st1, h1, h2⟩ := setRemote_success hok
  have hd : setDescRemote st A = .ok (afterRemoteAnswer st A) := by
    unfold setDescRemote afterRemoteAnswer; simp [ht, hs]
  rw [hd] at h1
  simp only [Except.ok.injEq] at h1
  subst h1
  obtain ⟨na, nv, e⟩ := engineUpdate_eq A (afterRemoteAnswer st A)
  rcases h2 with ⟨_, h2⟩ | ⟨_, h2⟩
  · rw [h2, e]; exact ⟨_, na, nv, rfl⟩
  · rw [h2, e]; exact ⟨_, na, nv, rfl⟩


theorem register_more (st : St) (d : Desc) :
    (st.register d).sig = st.sig ∧ (st.register d).pendLocal = st.pendLocal ∧ (st.register d).curLocal = st.curLocal ∧
    (d.typ = .offer → (st.register d).lastOffer = some st.serial) ∧
    (d.typ = .answer → (st.register d).lastAnswer = some st.serial) := by
  unfold St.register
  cases hd : d.typ <;> simp

theorem offerDesc_typ {st : St} {d : Desc} (h : offerDesc st = .ok d) : d.typ = .offer := by
  unfold offerDesc at h
  split at h
  · unfold generateUnmatched at h
    exact (populate_mids h).2
  · split at h
    · unfold generateMatched at h
      simp only at h
      split at h
      · cases h
      · simp only [if_true] at h
        exact (populate_mids h).2
    · cases h

def midsOf : Option Desc → List (Option Mid)
  | some d => d.secs.map (·.mid)
  | none => []

/-- a peer between negotiations: stable, nothing pending, and its two current descriptions list the same mids -/
structure Stable (st : St) : Prop where
  sig : st.sig = .stable
  pendL : st.pendLocal = none
  pendR : st.pendRemote = none
  loc : midsOf st.curLocal = midsOf st.curRemote

/-- both peers between negotiations, agreeing on the list of mids negotiated so far -/
structure Synced (w : World) : Prop where
  a : Stable w.a
  b : Stable w.b
  same : midsOf w.a.curRemote = midsOf w.b.curRemote

/-- the mids negotiated so far -/
def World.negotiated (w : World) : List (Option Mid) := midsOf w.a.curRemote

/-- one complete round: `p` offers, the other peer answers, all four descriptions are applied; `none`
    when any of the six calls fails -/
def exchange (w : World) (p : Peer) : Option (World × Desc × Desc) :=
  match (step w (.createOffer p)).2,
        (step (step w (.createOffer p)).1 (.setLocal p false)).2,
        (step (step (step w (.createOffer p)).1 (.setLocal p false)).1 (.setRemote p.other)).2,
        (step (step (step (step w (.createOffer p)).1 (.setLocal p false)).1 (.setRemote p.other)).1
          (.createAnswer p.other)).2,
        (step (step (step (step (step w (.createOffer p)).1 (.setLocal p false)).1 (.setRemote p.other)).1
          (.createAnswer p.other)).1 (.setLocal p.other false)).2,
        (step (step (step (step (step (step w (.createOffer p)).1 (.setLocal p false)).1 (.setRemote p.other)).1
          (.createAnswer p.other)).1 (.setLocal p.other false)).1 (.setRemote p)).2 with
  | .desc O, .ok, .ok, .desc A, .ok, .ok =>
    some ((step (step (step (step (step (step w (.createOffer p)).1 (.setLocal p false)).1 (.setRemote p.other)).1
          (.createAnswer p.other)).1 (.setLocal p.other false)).1 (.setRemote p)).1, O, A)
  | _, _, _, _, _, _ => none

def exchangeOps (p : Peer) : List Op :=
  [.createOffer p, .setLocal p false, .setRemote p.other, .createAnswer p.other, .setLocal p.other false, .setRemote p]

/-- `exchange` is the interpreter run on the six operations -/
theorem exchange_is_run {w w' : World} {p : Peer} {O A : Desc} (h : exchange w p = some (w', O, A)) :
    finalWorld w (exchangeOps p) = w' ∧
    (runOps w (exchangeOps p)).map (fun r => match r.1 with | .desc d => some d | _ => none) =
      [some O, none, none, some A, none, none] := by
  unfold exchange at h
  split at h
  · simp only [Option.some.injEq, Prod.mk.injEq] at h
    obtain ⟨rfl, rfl, rfl⟩ := h
    rename_i h1 h2 h3 h4 h5 h6
    refine ⟨rfl, ?_⟩
    simp only [exchangeOps, runOps, List.map_cons, List.map_nil, h1, h2, h3, h4, h5, h6]
  · cases h

@[simp] theorem World.get_set_same (w : World) (p : Peer) (s : St) : (w.set p s).get p = s := by
  cases p <;> rfl

@[simp] theorem World.get_set_other (w : World) (p : Peer) (s : St) : (w.set p s).get p.other = w.get p.other := by
  cases p <;> rfl

@[simp] theorem World.get_set_other' (w : World) (p : Peer) (s : St) : (w.set p.other s).get p = w.get p := by
  cases p <;> rfl

@[simp] theorem Peer.other_other (p : Peer) : p.other.other = p := by cases p <;> rfl

theorem resOfDesc_desc {x : Except Err Desc} {d : Desc} (h : resOfDesc x = .desc d) : x = .ok d := by
  cases x with
  | error e => simp [resOfDesc] at h
  | ok d' => simp only [resOfDesc, Res.desc.injEq] at h; rw [h]

theorem resOfUnit_ok {x : Except Err Unit} (h : resOfUnit x = .ok) : x = .ok () := by
  cases x with
  | error e => simp [resOfUnit] at h
  | ok u => rfl


theorem Synced.get {w : World} (h : Synced w) (p : Peer) : Stable (w.get p) := by
  cases p
  · exact h.a
  · exact h.b

theorem Synced.same' {w : World} (h : Synced w) (p : Peer) :
    midsOf (w.get p).curRemote = midsOf (w.get p.other).curRemote := by
  cases p
  · exact h.same
  · exact h.same.symm

/-- **One round.**  From a synchronised world, a complete exchange in which all six calls succeed returns
    an offer that extends the mids negotiated so far (same mids, same positions, new sections appended), an
    answer that lists exactly the offer's mids in the offer's order, and leaves a synchronised world whose
    negotiated mids are the offer's. -/
theorem exchange_spec {w w' : World} {p : Peer} {O A : Desc} (hs : Synced w) (h : exchange w p = some (w', O, A)) :
    (w.negotiated).IsPrefix (O.secs.map (·.mid)) ∧
    A.secs.map (·.mid) = O.secs.map (·.mid) ∧
    O.typ = .offer ∧ A.typ = .answer ∧
    Synced w' ∧ w'.negotiated = O.secs.map (·.mid) := by
  unfold exchange at h
  split at h
  case h_2 => cases h
  rename_i x1 x2 x3 x4 x5 x6 O' A' h1 h2 h3 h4 h5 h6
  simp only [Option.some.injEq, Prod.mk.injEq] at h
  obtain ⟨hw', hO', hA'⟩ := h
  subst hO' hA'
  clear x1 x2 x3 x4 x5 x6
  -- step 1: CreateOffer on p
  have sP := hs.get p
  have sQ := hs.get p.other
  have e1 : step w (.createOffer p) = (w.set p (createOffer (w.get p)).1, resOfDesc (createOffer (w.get p)).2) := rfl
  rw [e1] at h1 h2 h3 h4 h5 h6 hw'
  simp only at h1 h2 h3 h4 h5 h6 hw'
  have hO := resOfDesc_desc h1
  obtain ⟨hst1, hdesc⟩ := createOffer_ok hO
  obtain ⟨f1, f2, f3, f4, f5, _, _, f8, _⟩ := offerState_fields (w.get p)
  have hOt : O'.typ = .offer := offerDesc_typ hdesc
  obtain ⟨r1, _, _, r4, r5, r6, _⟩ := register_same (offerState (w.get p)) O'
  obtain ⟨m1, m2, m3, m4, _⟩ := register_more (offerState (w.get p)) O'
  -- the prefix property
  have hpre : (midsOf (w.get p).curRemote).IsPrefix (O'.secs.map (·.mid)) := by
    cases hc : (w.get p).curRemote with
    | none => exact List.nil_prefix
    | some c =>
      have hrd : (w.get p).remoteDesc = some c := by
        unfold St.remoteDesc; rw [sP.pendR, hc]
      exact offer_extends_remote _ O' c hO (by simp [hc]) hrd
  -- step 2: SetLocalDescription(offer) on p
  generalize hsp1 : (createOffer (w.get p)).1 = sp1 at h2 h3 h4 h5 h6 hw'
  have hsp1 := hsp1.symm
  rw [hst1] at hsp1
  have c1 : sp1.created = some ((offerState (w.get p)).serial, O') := by rw [hsp1, r6]
  have e2 : step (w.set p sp1) (.setLocal p false) =
      ((w.set p sp1).set p (setLocal sp1 (offerState (w.get p)).serial O').1,
        resOfUnit (setLocal sp1 (offerState (w.get p)).serial O').2) := by
    simp only [step, World.get_set_same, Bool.false_eq_true, if_false, c1]
  rw [e2] at h2 h3 h4 h5 h6 hw'
  simp only at h2 h3 h4 h5 h6 hw'
  have hsl := setLocal_offer_eq (st := sp1) (n := (offerState (w.get p)).serial) hOt
    (by rw [hsp1]; exact m4 hOt) (by rw [hsp1, m1, f5]; exact sP.sig)
  rw [hsl] at h3 h4 h5 h6 hw'
  simp only at h3 h4 h5 h6 hw'
  generalize hsp2 : ({ sp1 with sig := .haveLocalOffer, pendLocal := some O' } : St) = sp2 at h3 h4 h5 h6 hw'
  have hsp2 := hsp2.symm
  -- step 3: SetRemoteDescription(offer) on the other peer
  have hw2q : ((w.set p sp1).set p sp2).get p.other = w.get p.other := by simp
  have hw2p : ((w.set p sp1).set p sp2).get p = sp2 := by simp
  have e3 : step ((w.set p sp1).set p sp2) (.setRemote p.other) =
      (((w.set p sp1).set p sp2).set p.other (setRemote (w.get p.other) O').1, resOfUnit (setRemote (w.get p.other) O').2) := by
    simp only [step, Peer.other_other, hw2p, hw2q]
    have : sp2.created = some ((offerState (w.get p)).serial, O') := by rw [hsp2]; exact c1
    simp only [this]
  rw [e3] at h3 h4 h5 h6 hw'
  simp only at h3 h4 h5 h6 hw'
  obtain ⟨trs3, na3, nv3, hq3⟩ := setRemote_offer_ok hOt sQ.sig (resOfUnit_ok h3)
  rw [hq3] at h4 h5 h6 hw'
  generalize hsq3 : ({ w.get p.other with sig := .haveRemoteOffer, pendRemote := some O', trs := trs3, negAudio := na3, negVideo := nv3 } : St) = sq3 at h4 h5 h6 hw'
  have hsq3 := hsq3.symm
  -- step 4: CreateAnswer on the other peer
  have e4 : step (((w.set p sp1).set p sp2).set p.other sq3) (.createAnswer p.other) =
      ((((w.set p sp1).set p sp2).set p.other sq3).set p.other (createAnswer sq3).1, resOfDesc (createAnswer sq3).2) := by
    simp only [step, World.get_set_same]
  rw [e4] at h4 h5 h6 hw'
  simp only at h4 h5 h6 hw'
  have hA := resOfDesc_desc h4
  obtain ⟨offer, ho1, ho2, _, hAt⟩ := answer_mids sq3 A' hA
  have hoff : offer = O' := by
    have : sq3.remoteDesc = some O' := by rw [hsq3]; rfl
    rw [this] at ho1; exact (Option.some.inj ho1).symm
  rw [hoff] at ho2
  obtain ⟨ra, _, _, _, hsq4⟩ := createAnswer_ok hA
  obtain ⟨_, _, _, _, as5, _, _, as8, as9, _, _, as12⟩ := answerState_same sq3 ra
  obtain ⟨_, _, _, q4c, q4p, q4cr, _⟩ := register_same (answerState sq3 ra) A'
  obtain ⟨n1, n2, n3, _, n5⟩ := register_more (answerState sq3 ra) A'
  rw [as9] at q4cr n5
  rw [as5] at q4p
  rw [as8] at n1
  generalize hsq4' : (createAnswer sq3).1 = sq4 at h5 h6 hw'
  have hsq4' := hsq4'.symm
  rw [hsq4] at hsq4'
  -- step 5: SetLocalDescription(answer) on the other peer
  have c4 : sq4.created = some (sq3.serial, A') := by rw [hsq4', q4cr]
  have e5 : step ((((w.set p sp1).set p sp2).set p.other sq3).set p.other sq4) (.setLocal p.other false) =
      (((((w.set p sp1).set p sp2).set p.other sq3).set p.other sq4).set p.other (setLocal sq4 sq3.serial A').1,
        resOfUnit (setLocal sq4 sq3.serial A').2) := by
    simp only [step, World.get_set_same, Bool.false_eq_true, if_false, c4]
  rw [e5] at h5 h6 hw'
  simp only at h5 h6 hw'
  obtain ⟨trs5, hq5⟩ := setLocal_answer_eq (st := sq4) (n := sq3.serial) hAt
    (by rw [hsq4']; exact n5 hAt) (by rw [hsq4', n1, hsq3])
  rw [hq5] at h6 hw'
  simp only at h6 hw'
  generalize hsq5 : ({ sq4 with sig := .stable, curLocal := some A', curRemote := sq4.pendRemote, pendRemote := none, pendLocal := none, trs := trs5 } : St) = sq5 at h6 hw'
  have hsq5 := hsq5.symm
  -- step 6: SetRemoteDescription(answer) on p
  have hw5p : (((((w.set p sp1).set p sp2).set p.other sq3).set p.other sq4).set p.other sq5).get p = sp2 := by simp
  have hw5q : (((((w.set p sp1).set p sp2).set p.other sq3).set p.other sq4).set p.other sq5).get p.other = sq5 := by simp
  have e6 : step (((((w.set p sp1).set p sp2).set p.other sq3).set p.other sq4).set p.other sq5) (.setRemote p) =
      ((((((w.set p sp1).set p sp2).set p.other sq3).set p.other sq4).set p.other sq5).set p (setRemote sp2 A').1,
        resOfUnit (setRemote sp2 A').2) := by
    simp only [step, hw5p, hw5q]
    have : sq5.created = some (sq3.serial, A') := by rw [hsq5]; exact c4
    simp only [this]
  rw [e6] at h6 hw'
  simp only at h6 hw'
  obtain ⟨trs6, na6, nv6, hp6⟩ := setRemote_answer_ok (st := sp2) hAt (by rw [hsp2]) (resOfUnit_ok h6)
  rw [hp6] at hw'
  -- the final world
  have hcurP : ({ afterRemoteAnswer sp2 A' with trs := trs6, negAudio := na6, negVideo := nv6 } : St).curRemote = some A' := rfl
  have hcurQ : sq5.curRemote = some O' := by
    rw [hsq5]
    show sq4.pendRemote = some O'
    rw [hsq4', q4p, hsq3]
  have stP : Stable ({ afterRemoteAnswer sp2 A' with trs := trs6, negAudio := na6, negVideo := nv6 } : St) :=
    ⟨rfl, rfl, rfl, by
      show midsOf sp2.pendLocal = midsOf (some A')
      rw [hsp2]; simp [midsOf, ho2]⟩
  have stQ : Stable sq5 := by
    refine ⟨by rw [hsq5], by rw [hsq5], by rw [hsq5], ?_⟩
    rw [hcurQ, hsq5]
    simp [midsOf, ho2]
  have hneg : w.negotiated = midsOf (w.get p).curRemote := by
    cases p
    · rfl
    · exact hs.same
  refine ⟨by rw [hneg]; exact hpre, ho2, hOt, hAt, ?_, ?_⟩
  · subst hw'
    cases p
    · exact ⟨stP, stQ, by show midsOf (some A') = midsOf sq5.curRemote; rw [hcurQ]; simp [midsOf, ho2]⟩
    · exact ⟨stQ, stP, by show midsOf sq5.curRemote = midsOf (some A'); rw [hcurQ]; simp [midsOf, ho2]⟩
  · subst hw'
    cases p
    · show midsOf (some A') = _; simp [midsOf, ho2]
    · show midsOf sq5.curRemote = _; rw [hcurQ]; rfl


/-! ### renegotiation histories: rounds of local changes followed by a complete exchange -/

/-- additions, removals and stops of transceivers / tracks / data channels -/
def Op.isLocal : Op → Bool
  | .addTrack _ _ | .addTransceiver _ _ _ | .createDC _ | .removeTrack _ _ | .stop _ _ => true
  | _ => false

/-- the negotiation fields of both peers -/
def negFields (st : St) : Sig × Option Desc × Option Desc × Option Desc × Option Desc :=
  (st.sig, st.curLocal, st.pendLocal, st.curRemote, st.pendRemote)

theorem local_fields (w : World) (op : Op) (h : op.isLocal = true) (q : Peer) :
    negFields ((step w op).1.get q) = negFields (w.get q) := by
  have hset : ∀ (r : Peer) (s : St), negFields s = negFields (w.get r) → negFields ((w.set r s).get q) = negFields (w.get q) := by
    intro r s hh
    cases q <;> cases r <;> first | exact hh | rfl
  cases op with
  | addTrack r k =>
    apply hset; unfold addTrack; split <;> rfl
  | addTransceiver r k d =>
    apply hset; unfold addTransceiver; split <;> (try split) <;> rfl
  | createDC r => apply hset; rfl
  | removeTrack r i =>
    simp only [step]
    split
    · rfl
    · rename_i x hx
      apply hset
      unfold removeTrack at hx
      split at hx
      · cases hx
      · split at hx
        · cases hx
        · simp only [Option.some.injEq] at hx; subst hx; rfl
  | stop r i =>
    simp only [step]
    split
    · rfl
    · rename_i x hx
      apply hset
      unfold stopTransceiver at hx
      split at hx
      · cases hx
      · simp only [Option.some.injEq] at hx; subst hx; rfl
  | createOffer _ => cases h
  | createAnswer _ => cases h
  | setLocal _ _ => cases h
  | setRemote _ => cases h
  | setRemoteSyn _ _ => cases h

theorem Stable.of_fields {st st' : St} (h : Stable st) (e : negFields st' = negFields st) : Stable st' := by
  unfold negFields at e
  simp only [Prod.mk.injEq] at e
  obtain ⟨e1, e2, e3, e4, e5⟩ := e
  exact ⟨by rw [e1]; exact h.sig, by rw [e3]; exact h.pendL, by rw [e5]; exact h.pendR, by rw [e2, e4]; exact h.loc⟩

theorem local_synced (w : World) (op : Op) (h : op.isLocal = true) (hs : Synced w) :
    Synced (step w op).1 ∧ (step w op).1.negotiated = w.negotiated := by
  have fa := local_fields w op h .a
  have fb := local_fields w op h .b
  have ca : ((step w op).1.a).curRemote = w.a.curRemote := by
    have := congrArg (fun x => x.2.2.2.1) fa; exact this
  have cb : ((step w op).1.b).curRemote = w.b.curRemote := by
    have := congrArg (fun x => x.2.2.2.1) fb; exact this
  refine ⟨⟨hs.a.of_fields fa, hs.b.of_fields fb, ?_⟩, ?_⟩
  · rw [ca, cb]; exact hs.same
  · unfold World.negotiated; rw [ca]

theorem locals_synced : ∀ (ops : List Op) (w : World), ops.all Op.isLocal = true → Synced w →
    Synced (finalWorld w ops) ∧ (finalWorld w ops).negotiated = w.negotiated := by
  intro ops
  induction ops with
  | nil => intro w _ hs; exact ⟨hs, rfl⟩
  | cons op ops ih =>
    intro w h hs
    simp only [List.all_cons, Bool.and_eq_true] at h
    obtain ⟨s1, n1⟩ := local_synced w op h.1 hs
    obtain ⟨s2, n2⟩ := ih _ h.2 s1
    exact ⟨s2, n2.trans n1⟩

/-- both peers offering in any order: each round is some local changes on either peer, then a complete
    exchange offered by `p`; `none` if a call of an exchange fails -/
def runRounds : World → List (List Op × Peer) → Option (World × List Desc)
  | w, [] => some (w, [])
  | w, (loc, p) :: rest =>
    match exchange (finalWorld w loc) p with
    | none => none
    | some (w', O, A) =>
      match runRounds w' rest with
      | none => none
      | some (w'', ds) => some (w'', O :: A :: ds)

/-- every description starts with the previous one's mids, in the same order -/
def PrefixChain : List (Option Mid) → List Desc → Prop
  | _, [] => True
  | l, d :: ds => l.IsPrefix (d.secs.map (·.mid)) ∧ PrefixChain (d.secs.map (·.mid)) ds

theorem rounds_chain : ∀ (rounds : List (List Op × Peer)) (w w' : World) (ds : List Desc),
    Synced w → (∀ r ∈ rounds, r.1.all Op.isLocal = true) → runRounds w rounds = some (w', ds) →
    PrefixChain w.negotiated ds ∧ Synced w' := by
  intro rounds
  induction rounds with
  | nil =>
    intro w w' ds hs _ h
    simp only [runRounds, Option.some.injEq, Prod.mk.injEq] at h
    obtain ⟨rfl, rfl⟩ := h
    exact ⟨trivial, hs⟩
  | cons r rest ih =>
    intro w w' ds hs hl h
    obtain ⟨loc, p⟩ := r
    simp only [runRounds] at h
    split at h
    · cases h
    · rename_i w1 O A hex
      split at h
      · cases h
      · rename_i w2 ds' hrest
        simp only [Option.some.injEq, Prod.mk.injEq] at h
        obtain ⟨rfl, rfl⟩ := h
        obtain ⟨s0, n0⟩ := locals_synced loc w (hl (loc, p) (List.mem_cons_self)) hs
        obtain ⟨e1, e2, _, _, s1, n1⟩ := exchange_spec s0 hex
        obtain ⟨c, s2⟩ := ih w1 w2 ds' s1 (fun r hr => hl r (List.mem_cons_of_mem _ hr)) hrest
        refine ⟨⟨by rw [← n0]; exact e1, by rw [e2]; exact List.prefix_refl _, ?_⟩, s2⟩
        rw [e2, ← n1]; exact c

/-- in a prefix chain a mid keeps its position -/
theorem prefix_idx {l1 l2 : List (Option Mid)} (h : l1.IsPrefix l2) (i : Nat) (m : Option Mid) (hi : l1[i]? = some m) :
    l2[i]? = some m := by
  obtain ⟨t, rfl⟩ := h
  rw [List.getElem?_append_left]
  · exact hi
  · exact (List.getElem?_eq_some_iff.1 hi).1

theorem initial_synced (ca cb : Cfg) : Synced { a := { cfg := ca }, b := { cfg := cb } } :=
  ⟨⟨rfl, rfl, rfl, rfl⟩, ⟨rfl, rfl, rfl, rfl⟩, rfl⟩


theorem PrefixChain.all : ∀ (ds : List Desc) (l : List (Option Mid)), PrefixChain l ds →
    ∀ d ∈ ds, l.IsPrefix (d.secs.map (·.mid)) := by
  intro ds
  induction ds with
  | nil => intro l _ d hd; cases hd
  | cons x xs ih =>
    intro l h d hd
    rcases List.mem_cons.1 hd with rfl | hd
    · exact h.1
    · exact List.IsPrefix.trans h.1 (ih _ h.2 d hd)

/-- every earlier description of the chain is a prefix of every later one -/
theorem PrefixChain.later : ∀ (ds1 : List Desc) (d : Desc) (ds2 : List Desc) (l : List (Option Mid)),
    PrefixChain l (ds1 ++ d :: ds2) → ∀ d' ∈ ds2, (d.secs.map (·.mid)).IsPrefix (d'.secs.map (·.mid)) := by
  intro ds1
  induction ds1 with
  | nil => intro d ds2 l h d' hd'; exact PrefixChain.all ds2 _ h.2 d' hd'
  | cons x xs ih => intro d ds2 l h d' hd'; exact ih d ds2 _ h.2 d' hd'

/-! ### SetRemoteDescription(offer) establishes what CreateAnswer needs -/

theorem eq_of_same_mid {secs : List Sec} (hn : (secs.filterMap (·.mid)).Nodup) :
    ∀ {a b : Sec} {m : Mid}, a ∈ secs → b ∈ secs → a.mid = some m → b.mid = some m → a = b := by
  induction secs with
  | nil => intro a b m ha; cases ha
  | cons x xs ih =>
    intro a b m ha hb hma hmb
    have hxs : (xs.filterMap (·.mid)).Nodup := by
      cases hx : x.mid with
      | none => simpa [List.filterMap_cons, hx] using hn
      | some mx =>
        simp only [List.filterMap_cons, hx] at hn
        exact (List.nodup_cons.1 hn).2
    have hhead : ∀ c, c ∈ xs → c.mid = some m → x.mid = some m → False := by
      intro c hc hcm hxm
      simp only [List.filterMap_cons, hxm] at hn
      exact (List.nodup_cons.1 hn).1 (List.mem_filterMap.2 ⟨c, hc, hcm⟩)
    rcases List.mem_cons.1 ha with hax | ha
    · rcases List.mem_cons.1 hb with hbx | hb
      · rw [hax, hbx]
      · exact (hhead b hb hmb (by rw [← hax]; exact hma)).elim
    · rcases List.mem_cons.1 hb with hbx | hb
      · exact (hhead a ha hma (by rw [← hbx]; exact hmb)).elim
      · exact ih hxs ha hb hma hmb

/-- every transceiver of the working list that holds a mid of the offer has the kind of that section -/
def WGlare (d : Desc) (w : List (Tr × Bool)) : Prop :=
  ∀ s ∈ d.secs, ∀ x ∈ w, s.mid.isSome = true → x.1.mid = s.mid → kindOf s.media = some x.1.kind

theorem onFoundByMid_kind (m : Mid) (d : Dir) (t : Tr) : (onFoundByMid m d t).kind = t.kind := by
  unfold onFoundByMid Tr.setMidIfUnset
  by_cases hd : d = .inactive <;> simp [hd, Tr.stop] <;> split <;> rfl

theorem onSatisfied_kind (m : Mid) (d : Dir) (t : Tr) : (onSatisfied m d t).kind = t.kind := by
  unfold onSatisfied Tr.setMidIfUnset
  simp only
  split <;> rfl

theorem remoteSecStep_glare {st : St} {d : Desc} {s : Sec} {w w' : List (Tr × Bool)} (hd : DescOK d) (hs : s ∈ d.secs)
    (h : remoteSecStep st s w = .ok w') (hg : WGlare d w) : WGlare d w' := by
  unfold remoteSecStep at h
  split at h
  · cases h
  · rename_i m hm
    split at h
    · simp only [Except.ok.injEq] at h; subst h; exact hg
    · split at h
      · simp only [Except.ok.injEq] at h; subst h; exact hg
      · rename_i k hk
        simp only at h
        -- a transceiver that ends up holding `m` with kind `k` is fine: `s` is the only section with mid `m`
        have key : ∀ (t' : Tr), t'.mid = some m → t'.kind = k →
            ∀ s' ∈ d.secs, s'.mid.isSome = true → t'.mid = s'.mid → kindOf s'.media = some t'.kind := by
          intro t' htm htk s' hs' _ he
          rw [htm] at he
          have : s' = s := eq_of_same_mid hd hs' hs he.symm hm
          rw [this, htk]; exact hk
        split at h
        · rename_i w'' hf
          simp only [Except.ok.injEq] at h; subst h
          obtain ⟨w1, t, w2, e1, hp, e2⟩ := updFirst_some hf
          subst e1 e2
          intro s' hs' x hx hsome he
          rcases List.mem_append.1 hx with hx | hx
          · exact hg s' hs' x (List.mem_append.2 (Or.inl hx)) hsome he
          · rcases List.mem_cons.1 hx with rfl | hx
            · have htm : t.mid = some m := by simpa using hp
              simp only [onFoundByMid_kind]
              simp only [onFoundByMid_mid htm] at he
              exact hg s' hs' (t, false) (List.mem_append.2 (Or.inr List.mem_cons_self)) hsome (by rw [htm]; exact he)
            · exact hg s' hs' x (List.mem_append.2 (Or.inr (List.mem_cons_of_mem _ hx))) hsome he
        · split at h
          · rename_i w'' hsat
            simp only [Except.ok.injEq] at h; subst h
            unfold satisfyUpd at hsat
            obtain ⟨pd, _, hu⟩ := firstSome_some hsat
            obtain ⟨w1, t, w2, e1, hp, e2⟩ := updFirst_some hu
            subst e1 e2
            simp only [Bool.and_eq_true, decide_eq_true_eq] at hp
            obtain ⟨⟨htn, htk⟩, _⟩ := hp
            intro s' hs' x hx hsome he
            rcases List.mem_append.1 hx with hx | hx
            · exact hg s' hs' x (List.mem_append.2 (Or.inl hx)) hsome he
            · rcases List.mem_cons.1 hx with rfl | hx
              · exact key _ (onSatisfied_mid htn) (by rw [onSatisfied_kind]; exact htk) s' hs' hsome he
              · exact hg s' hs' x (List.mem_append.2 (Or.inr (List.mem_cons_of_mem _ hx))) hsome he
          · simp only [Except.ok.injEq] at h; subst h
            intro s' hs' x hx hsome he
            rcases List.mem_append.1 hx with hx | hx
            · exact hg s' hs' x hx hsome he
            · simp only [List.mem_singleton] at hx
              subst hx
              exact key _ rfl rfl s' hs' hsome he

theorem remoteLoop_glare (st : St) (d : Desc) (hd : DescOK d) : ∀ (secs : List Sec) (w : List (Tr × Bool)),
    (∀ s ∈ secs, s ∈ d.secs) → WGlare d w → WGlare d (remoteLoop st secs w).1 := by
  intro secs
  induction secs with
  | nil => intro w _ hg; exact hg
  | cons s rest ih =>
    intro w hsub hg
    simp only [remoteLoop]
    split
    · exact hg
    · rename_i w' hstep
      exact ih w' (fun x hx => hsub x (List.mem_cons_of_mem _ hx))
        (remoteSecStep_glare hd (hsub s List.mem_cons_self) hstep hg)

theorem remoteTrs_glare (st : St) (d : Desc) (hd : DescOK d) (hg : NoGlare st.trs d) : NoGlare (remoteTrs st d).1 d := by
  unfold remoteTrs
  split
  · have hw : WGlare d (st.trs.map fun t => (t, false)) := by
      intro s hs x hx hsome he
      obtain ⟨t, ht, rfl⟩ := List.mem_map.1 hx
      exact hg s hs t ht hsome he
    have := remoteLoop_glare st d hd d.secs _ (fun s hs => hs) hw
    intro s hs t ht hsome he
    obtain ⟨x, hx, rfl⟩ := List.mem_map.1 ht
    exact this s hs x hx hsome he
  · exact hg

/-- after a successful SetRemoteDescription of an offer, no transceiver holds one of the offer's mids with
    another kind — provided that was so before (e.g. because no transceiver had a mid yet) -/
theorem setRemote_noGlare (st : St) (d : Desc) (hd : DescOK d) (ht : d.typ = .offer) (hg : NoGlare st.trs d) :
    NoGlare (setRemote st d).1.trs d := by
  rcases setRemote_shape st d with h | ⟨st1, h1, h2⟩
  · rw [h]; exact hg
  · obtain ⟨t1, _⟩ := setDescRemote_same h1
    obtain ⟨t2, _⟩ := engineUpdate_same d st1
    have base : NoGlare (remoteTrs (engineUpdate st1 d) d).1 d :=
      remoteTrs_glare _ d hd (by rw [t2, t1]; exact hg)
    rcases h2 with h2 | ⟨h, _⟩
    · rw [h2]; exact base
    · rw [ht] at h; cases h

end WebrtcVerif.Jsep
