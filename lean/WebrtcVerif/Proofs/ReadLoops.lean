import WebrtcVerif.Proofs.IvfLemmas
import WebrtcVerif.Proofs.OggReader
import WebrtcVerif.Proofs.AnnexBLemmas
import WebrtcVerif.Proofs.RtpdumpLemmas
/-!
  "Read until the reader reports an error or end of stream" for the five container readers (property C37).

  The readers themselves are modelled elsewhere, on arbitrary bytes, by the properties that own them
  (`Model/Ivf`, `Model/Ogg`, `Model/AnnexB`, `Model/Rtpdump`); nothing is re-modelled here.  This file adds
  what C37 needs on top:

  * the page loop of the Ogg reader as a well-founded definition (`Ogg.readPages`; `Ivf.readFrames`,
    `AnnexB.readAll` and `Rtpdump.readAll` exist already) and the whole-file drivers `Ogg.readFileNew`,
  * exact consumption of a successful call (`parseNextPage_consumes`; `next_consumes`),
  * a bound on the number of successful calls by the input length for every loop,
  * a bytes-only progress measure for the Annex-B readers (`Reader.bytes`: every returned unit is made of
    bytes that leave the reader for good),
  * the guard facts that make the rtpdump model panic-free by construction.
-/
namespace WebrtcVerif

/-! ## IVF -/
namespace Ivf
open WebrtcVerif.Bytes

/-- every returned frame costs 12 header bytes plus its payload: the number of frames and the bytes they
    carry are bounded by the input length -/
theorem readFrames_count (r : Reader) (s : Bs) :
    (readFrames r s).1.length * 12 + ((readFrames r s).1.map (·.1.length)).sum ≤ s.length := by
  induction hn : s.length using Nat.strongRecOn generalizing s with
  | _ n ih =>
    rw [readFrames_eq]
    cases hp : parseNextFrame r s with
    | panic => simp
    | err e => simp
    | ok x =>
      obtain ⟨payload, fh, rest⟩ := x
      have hc := (parseNextFrame_consumes r s payload fh rest hp).1
      have := ih rest.length (by omega) rest rfl
      simp only [List.length_cons, List.map_cons, List.sum_cons]
      omega

/-- `readFile` (NewWith, then ParseNextFrame until it stops) never panics -/
theorem readFile_no_panic (s : Bs) : readFile s ≠ .panic ∧
    ∀ h fs e, readFile s = .ok (h, fs, e) → e ≠ .panic := by
  unfold readFile
  have hnp := newReader_no_panic s
  cases hr : newReader s with
  | panic => exact absurd hr hnp
  | err e => simp
  | ok x =>
    obtain ⟨r, h, rest⟩ := x
    obtain ⟨hnum, _, _⟩ := newReader_num_ne_zero s r h rest hr
    refine ⟨by simp, ?_⟩
    intro h' fs e heq
    have hend := readFrames_end r hnum rest
    cases hrf : readFrames r rest with
    | mk fs' e' =>
      rw [hrf] at hend
      simp only [hrf] at heq
      injection heq with heq
      injection heq with _ heq
      injection heq with _ heq
      subst heq
      rcases hend with h1 | h1 | h1 <;> simp only at h1 <;> rw [h1] <;> simp

/-- number of frames a whole file yields: at most `(len − 32) / 12` -/
theorem readFile_count (s : Bs) (h : FileHeader) (fs : List (Bs × FrameHeader)) (e : End)
    (hr : readFile s = .ok (h, fs, e)) : 32 + fs.length * 12 + (fs.map (·.1.length)).sum ≤ s.length := by
  unfold readFile at hr
  cases hn : newReader s with
  | panic => simp [hn] at hr
  | err e => simp [hn] at hr
  | ok x =>
    obtain ⟨r, h', rest⟩ := x
    obtain ⟨_, _, hl⟩ := newReader_num_ne_zero s r h' rest hn
    have hc := readFrames_count r rest
    cases hrf : readFrames r rest with
    | mk fs' e' =>
      simp only [hn, hrf] at hr
      injection hr with hr
      injection hr with _ hr
      injection hr with hr _
      subst hr
      rw [hrf] at hc
      simp only at hc
      omega

end Ivf

/-! ## Ogg -/
namespace Ogg
open WebrtcVerif.Bytes

/-- a successful `ParseNextPage` consumes exactly header + segment table + payload -/
theorem parseNextPage_consumes (ck : Bool) (s payload : Bs) (hdr : PageHeader) (rest : Bs)
    (h : parseNextPage ck s = .ok payload hdr rest) :
    rest.length + 27 + hdr.segmentsCount.toNat + payload.length = s.length := by
  unfold parseNextPage at h
  cases h1 : readN 27 s with
  | eof => rw [h1] at h; cases h
  | short => rw [h1] at h; cases h
  | ok header r1 =>
    obtain ⟨e1, hl⟩ := readN_ok_inv _ _ _ _ h1
    rw [h1] at h
    match header, hl with
    | [s0, s1, s2, s3, ver, ht, g0, g1, g2, g3, g4, g5, g6, g7, n0, n1, n2, n3, i0, i1, i2, i3, c0, c1, c2, c3, nseg], _ =>
      simp only at h
      cases h2 : readN nseg.toNat r1 with
      | eof => rw [h2] at h; cases h
      | short => rw [h2] at h; cases h
      | ok sizeBuffer r2 =>
        obtain ⟨e2, hl2⟩ := readN_ok_inv _ _ _ _ h2
        rw [h2] at h
        simp only at h
        cases h3 : readN (sumSegs sizeBuffer) r2 with
        | eof => rw [h3] at h; cases h
        | short => rw [h3] at h; cases h
        | ok pl r3 =>
          obtain ⟨e3, hl3⟩ := readN_ok_inv _ _ _ _ h3
          rw [h3] at h
          simp only at h
          split at h
          · cases h
          · injection h with hp hh hr
            subst hr; subst hp; subst hh
            rw [e1, e2, e3]
            simp; omega

/-- `ParseNextPage` until it does not return a page: the pages and the terminating result (never `.ok`).
    Terminates because every page consumes at least its 27-byte header. -/
def readPages (ck : Bool) (s : Bs) : List (Bs × PageHeader) × PageResult :=
  match h : parseNextPage ck s with
  | .ok payload hdr rest =>
    have : rest.length < s.length := by
      have := parseNextPage_progress ck s payload hdr rest h; omega
    let (ps, e) := readPages ck rest
    ((payload, hdr) :: ps, e)
  | .eof => ([], .eof)
  | .unexpectedEOF => ([], .unexpectedEOF)
  | .checksumMismatch => ([], .checksumMismatch)
  | .panic => ([], .panic)
termination_by s.length

theorem readPages_eq (ck : Bool) (s : Bs) : readPages ck s =
    match parseNextPage ck s with
    | .ok payload hdr rest => ((payload, hdr) :: (readPages ck rest).1, (readPages ck rest).2)
    | r => ([], r) := by
  rw [readPages]
  split <;> simp [*]

/-- bytes a page occupies in the stream -/
def pageBytes (p : Bs × PageHeader) : Nat := 27 + p.2.segmentsCount.toNat + p.1.length

theorem readPages_count (ck : Bool) (s : Bs) : ((readPages ck s).1.map pageBytes).sum ≤ s.length := by
  induction hn : s.length using Nat.strongRecOn generalizing s with
  | _ n ih =>
    rw [readPages_eq]
    cases hp : parseNextPage ck s with
    | ok payload hdr rest =>
      have hc := parseNextPage_consumes ck s payload hdr rest hp
      have := ih rest.length (by omega) rest rfl
      simp only [List.map_cons, List.sum_cons, pageBytes]
      omega
    | eof => simp
    | unexpectedEOF => simp
    | checksumMismatch => simp
    | panic => simp

theorem sum_pageBytes_ge (ps : List (Bs × PageHeader)) : ps.length * 27 ≤ (ps.map pageBytes).sum := by
  induction ps with
  | nil => simp
  | cons p ps ih => simp only [List.length_cons, List.map_cons, List.sum_cons, pageBytes]; omega

/-- the loop ends with end of stream, a short read or a checksum mismatch — never with a panic, and never
    by "running out" of anything else -/
theorem readPages_end (ck : Bool) (s : Bs) :
    (readPages ck s).2 = .eof ∨ (readPages ck s).2 = .unexpectedEOF ∨ (readPages ck s).2 = .checksumMismatch := by
  induction hn : s.length using Nat.strongRecOn generalizing s with
  | _ n ih =>
    rw [readPages_eq]
    have hnp := parseNextPage_no_panic ck s
    cases hp : parseNextPage ck s with
    | ok payload hdr rest =>
      have hc := parseNextPage_progress ck s payload hdr rest hp
      exact ih rest.length (by omega) rest rfl
    | eof => simp
    | unexpectedEOF => simp
    | checksumMismatch => simp
    | panic => exact absurd hp hnp

/-- `parseHeadFields` is only reached behind a `len(payload) ≥ 19` test, where it is `ParseOpusHead` -/
theorem parseHeadFields_no_panic (payload : Bs) (h : ¬ payload.length < 19) : parseHeadFields payload ≠ .panic := by
  have := parseOpusHead_no_panic payload
  unfold parseOpusHead at this
  rwa [if_neg h] at this

theorem parseHeadFields_not_readErr (payload : Bs) (r : PageResult) : parseHeadFields payload ≠ .readErr r := by
  unfold parseHeadFields
  simp only []
  repeat' split
  all_goals simp

/-- `oggreader.NewWith` (`readOpusHeader`): no index of the first page's payload is out of range -/
theorem readOpusHeader_no_panic (ck : Bool) (s : Bs) :
    (readOpusHeader ck s).1 ≠ .panic ∧ (readOpusHeader ck s).1 ≠ .readErr .panic := by
  unfold readOpusHeader
  have hnp := parseNextPage_no_panic ck s
  cases hp : parseNextPage ck s with
  | ok payload hdr rest =>
    simp only
    split
    · simp
    · split
      · simp
      · split
        · simp
        · rename_i hl
          split
          · simp
          · exact ⟨parseHeadFields_no_panic payload hl, parseHeadFields_not_readErr payload _⟩
  | eof => simp
  | unexpectedEOF => simp
  | checksumMismatch => simp
  | panic => exact absurd hp hnp

/-- what `readOpusHeader` leaves in the stream after a successful first page -/
theorem readOpusHeader_rest (ck : Bool) (s : Bs) (h : OggHeader) (rest : Bs)
    (hr : readOpusHeader ck s = (.ok h, rest)) : rest.length + 27 + 19 ≤ s.length := by
  unfold readOpusHeader at hr
  cases hp : parseNextPage ck s with
  | ok payload hdr rest' =>
    have hc := parseNextPage_consumes ck s payload hdr rest' hp
    rw [hp] at hr
    simp only at hr
    split at hr
    · cases hr
    · split at hr
      · cases hr
      · split at hr
        · cases hr
        · split at hr
          · cases hr
          · injection hr with _ hr
            subst hr
            omega
  | eof => rw [hp] at hr; cases hr
  | unexpectedEOF => rw [hp] at hr; cases hr
  | checksumMismatch => rw [hp] at hr; cases hr
  | panic => rw [hp] at hr; cases hr

/-- number of comments `ParseOpusTags` loops over (= the size of `make([]UserComment, count)`): bounded by
    a quarter of the payload, because of the "unreasonable comment count" guard -/
theorem commentsLoop_length (payload : Bs) : ∀ (n pos : Nat), (parseUserCommentsLoop payload n pos).2.length ≤ n := by
  intro n
  induction n with
  | zero => intro pos; simp [parseUserCommentsLoop]
  | succ n ih =>
    intro pos
    unfold parseUserCommentsLoop
    split
    · simp
    · split
      · simp
      · simp only []
        split
        · simp
        · split
          · simp
          · split
            · simp
            · simp only [List.length_cons]
              exact Nat.succ_le_succ (ih _)

theorem parseOpusTags_comments_bounded (payload : Bs) (t : Tags) (h : parseOpusTags payload = .ok t) :
    t.comments.length * 4 ≤ payload.length := by
  unfold parseOpusTags at h
  split at h
  · cases h
  · split at h
    · cases h
    · split at h
      · cases h
      · split at h
        · cases h
        · rename_i vendorLen _
          split at h
          · cases h
          · simp only [] at h
            split at h
            · cases h
            · split at h
              · rename_i vendor count _ _
                split at h
                · cases h
                · rename_i hcnt
                  have hl := commentsLoop_length payload count (12 + vendorLen + 4)
                  split at h
                  · rename_i cs heq
                    injection h with h
                    subst h
                    rw [heq] at hl
                    simp only at hl ⊢
                    have : count * 4 ≤ payload.length := by
                      have := Nat.div_mul_le_self (payload.length - (12 + vendorLen)) 4
                      have h2 : count ≤ (payload.length - (12 + vendorLen)) / 4 := by omega
                      have := Nat.mul_le_mul_right 4 h2
                      omega
                    omega
                  · rename_i r cs hne heq
                    cases r with
                    | ok t' => exact (hne t' rfl).elim
                    | badSignature => cases h
                    | panic => exact absurd h (by
                        have := commentsLoop_no_panic payload count (12 + vendorLen + 4)
                        rw [heq] at this; simp at this)
              · cases h

end Ogg

/-! ## rtpdump -/
namespace Rtpdump
open WebrtcVerif.Bytes

/-- a successful `Next` consumes exactly the 8-byte record header plus the payload it returns -/
theorem next_consumes (s : Bs) (p : Packet) (r : Bs) (h : next s = .ok (p, r)) :
    r.length + 8 + p.payload.length = s.length := by
  obtain ⟨l0, l1, q0, q1, o0, o1, o2, o3, hs, _⟩ := next_payload_exact s p r h
  rw [hs]; simp; omega

theorem readAll_count (s : Bs) :
    (readAll s).1.length * 8 + ((readAll s).1.map (·.payload.length)).sum ≤ s.length := by
  induction hn : s.length using Nat.strongRecOn generalizing s with
  | _ n ih =>
    rw [readAll_eq]
    cases hp : next s with
    | error e => simp
    | ok x =>
      obtain ⟨p, r⟩ := x
      have hc := next_consumes s p r hp
      have := ih r.length (by omega) r rfl
      simp only [List.length_cons, List.map_cons, List.sum_cons]
      omega

/-- the loop always ends with `io.EOF` or `errMalformed` (the model's `Err.unrepresentable` is a writer error) -/
theorem next_err (s : Bs) (e : Err) (h : next s = .error e) : e = .eof ∨ e = .malformed := by
  unfold next at h
  split at h
  · cases h; simp
  · cases h; simp
  · split at h
    · simp only [] at h
      split at h
      · cases h; simp
      · split at h
        · cases h; simp
        · cases h; simp
        · cases h
    · cases h; simp

theorem readAll_end (s : Bs) : (readAll s).2 = .eof ∨ (readAll s).2 = .malformed := by
  induction hn : s.length using Nat.strongRecOn generalizing s with
  | _ n ih =>
    rw [readAll_eq]
    cases hp : next s with
    | error e => exact next_err s e hp
    | ok x =>
      obtain ⟨p, r⟩ := x
      have hc := next_consumes s p r hp
      exact ih r.length (by omega) r rfl

/-! ### guard facts: why the rtpdump model needs no panic outcome

`Reader.Next` indexes only the 8-byte buffer it has just filled with `io.ReadFull` (through
`packetHeader.Unmarshal`, itself behind `len(d) < 8`), and allocates `Length − 8` bytes in `uint16`
arithmetic behind `Length < 8`.  `NewReader` indexes only the 16-byte buffer filled by `io.ReadFull`
(through `Header.Unmarshal`, behind `len(data) < 16`).  The model writes these buffers as list patterns;
the facts below show that the fall-through arms of those patterns are unreachable (the buffer ALWAYS has
the length the indexing needs) and that the `uint16` subtraction never wraps. -/

/-- the buffer `io.ReadFull` filled has exactly the requested length -/
theorem readFull_len (n : Nat) (s a r : Bs) (h : readFull n s = .ok a r) : a.length = n :=
  (readFull_ok_inv n s a r h).2

/-- `Next`: whenever the 8-byte header was read, `packetHeader.Unmarshal`'s indices 0..7 exist -/
theorem next_header_guard (s hb rest : Bs) (h : readFull 8 s = .ok hb rest) :
    ∃ l0 l1 q0 q1 o0 o1 o2 o3, hb = [l0, l1, q0, q1, o0, o1, o2, o3] := by
  have hl := readFull_len _ _ _ _ h
  match hb, hl with
  | [l0, l1, q0, q1, o0, o1, o2, o3], _ => exact ⟨l0, l1, q0, q1, o0, o1, o2, o3, rfl⟩

/-- `Next`: the payload buffer is only allocated when `Length ≥ 8`, so `Length − 8` does not wrap around
    in `uint16`, and it is at most 65527 bytes -/
theorem next_alloc_guard (s : Bs) (p : Packet) (r : Bs) (h : next s = .ok (p, r)) :
    p.payload.length ≤ 65527 := by
  obtain ⟨l0, l1, q0, q1, o0, o1, o2, o3, _, hl⟩ := next_payload_exact s p r h
  have := rd16be_lt l0 l1
  omega

/-- `NewReader`: `Header.Unmarshal` succeeds on every 16-byte buffer (its indices 0..13 exist) -/
theorem unmarshal_guard (hb : Bs) (h : hb.length = 16) : ∃ hd, Header.unmarshal hb = some hd := by
  match hb, h with
  | [s0, s1, s2, s3, u0, u1, u2, u3, a, b', c, d, p0, p1, _, _], _ => exact ⟨_, rfl⟩

/-- `dropLine` (bufio `ReadLine`) never yields more than it was given -/
theorem dropLine_length (s : Bs) : (dropLine s).length ≤ s.length := by
  induction s with
  | nil => simp [dropLine]
  | cons x t ih =>
    unfold dropLine
    split
    · simp
    · simp only [List.length_cons]; omega

/-- `NewReader`: a successful call leaves at most `len − 16` bytes for `Next` -/
theorem newReader_rest (s : Bs) (h : Header) (rest : Bs) (hr : newReader s = .ok (h, rest)) :
    rest.length + 16 ≤ s.length := by
  unfold newReader at hr
  split at hr
  · cases hr
  · split at hr
    · cases hr
    · split at hr
      · rename_i hb rest' hrf
        obtain ⟨hs, hl⟩ := readFull_ok_inv _ _ _ _ hrf
        have hd := dropLine_length s
        split at hr
        · injection hr with hr
          injection hr with _ hr
          subst hr
          have : (dropLine s).length = hb.length + rest'.length := by rw [hs]; simp
          omega
        · cases hr
      · cases hr

/-- `NewReader` fails only with `errMalformed` -/
theorem newReader_err (s : Bs) (e : Err) (hr : newReader s = .error e) : e = .malformed := by
  unfold newReader at hr
  split at hr
  · cases hr; rfl
  · split at hr
    · cases hr; rfl
    · split at hr
      · split at hr
        · cases hr
        · cases hr; rfl
      · cases hr; rfl

end Rtpdump

/-! ## Annex-B: a bytes-only progress measure -/
namespace AnnexB
open WebrtcVerif.Bytes

/-- the bytes the reader still holds or will still be handed by the stream -/
def Reader.bytes (r : Reader) : Nat := r.readBuffer.length + (flat r.src).length + r.nalRev.length

theorem fill_bytes_ok (k : Nat) (buf : Bs) (src : List Ev) (buf' : Bs) (src' : List Ev)
    (h : fill k buf src = .ok buf' src') : buf'.length + (flat src').length ≤ buf.length + (flat src).length := by
  induction src generalizing buf with
  | nil =>
    unfold fill at h
    split at h
    · cases h; simp
    · cases h
  | cons ev rest ih =>
    unfold fill at h
    split at h
    · cases h; simp
    · split at h
      · cases h; simp [flat]
      · have := ih _ h
        simp [flat] at this ⊢; omega
      · cases h

theorem read_bytes_ok (k : Nat) (buf : Bs) (src : List Ev) (data buf' : Bs) (src' : List Ev)
    (h : read k buf src = (.ok data, buf', src')) :
    data.length + buf'.length + (flat src').length ≤ buf.length + (flat src).length := by
  unfold read at h
  split at h
  · cases h
  · rename_i b s hf
    have := fill_bytes_ok _ _ _ _ _ hf
    cases h
    simp only [List.length_take, List.length_drop]
    omega

theorem scan_found_bytes (c : Codec) (sei : Bool) (nr : Bs) (z : Nat) (buf nr' : Bs) (z' : Nat) (rest : Bs)
    (h : scan c sei nr z buf = .found nr' z' rest) : nr'.length + rest.length ≤ nr.length + buf.length := by
  induction buf generalizing nr z with
  | nil => simp [scan] at h
  | cons x t ih =>
    unfold scan at h
    split at h
    · rename_i n1 z1 hp
      obtain ⟨_, hle, _⟩ := processByte_found nr z x n1 z1 hp
      split at h
      · cases h
      · split at h
        · have := ih _ _ h
          simp only [List.length_cons, List.length_nil] at this ⊢; omega
        · cases h; simp only [List.length_cons]; omega
    · rename_i n1 z1 hp
      have := processByte_notfound nr z x n1 z1 hp
      subst this
      have := ih _ _ h
      simp only [List.length_cons] at this ⊢; omega

theorem loop_found_bytes (c : Codec) (sei : Bool) (nr : Bs) (z : Nat) (buf : Bs) (src : List Ev)
    (nr' : Bs) (z' : Nat) (buf' : Bs) (src' : List Ev)
    (h : loop c sei nr z buf src = .found nr' z' buf' src') :
    nr'.length + buf'.length + (flat src').length ≤ nr.length + buf.length + (flat src).length := by
  induction src generalizing nr z buf with
  | nil =>
    unfold loop at h
    split at h
    · cases h
    · rename_i hs
      have := scan_found_bytes _ _ _ _ _ _ _ _ hs
      cases h
      simp [flat]; omega
    · cases h
  | cons ev src ih =>
    unfold loop at h
    split at h
    · cases h
    · rename_i hs
      have := scan_found_bytes _ _ _ _ _ _ _ _ hs
      cases h
      omega
    · rename_i hs
      have hm := scan_more _ _ _ _ _ _ _ hs
      split at h
      · cases h
      · have := ih _ _ _ h
        simp only [flat, List.length_cons, List.length_append] at this ⊢
        omega
      · cases h

theorem loop_stop_bytes (c : Codec) (sei : Bool) (nr : Bs) (z : Nat) (buf : Bs) (src : List Ev)
    (nr' : Bs) (z' : Nat) (src' : List Ev)
    (h : loop c sei nr z buf src = .stop nr' z' src') :
    nr'.length + (flat src').length ≤ nr.length + buf.length + (flat src).length := by
  induction src generalizing nr z buf with
  | nil =>
    unfold loop at h
    split at h
    · cases h
    · cases h
    · rename_i hs
      have := scan_more _ _ _ _ _ _ _ hs
      cases h
      simp [flat]; omega
  | cons ev src ih =>
    unfold loop at h
    split at h
    · cases h
    · cases h
    · rename_i hs
      have := scan_more _ _ _ _ _ _ _ hs
      split at h
      · cases h; simp only [flat, List.nil_append]; omega
      · have := ih _ _ _ h
        simp only [flat, List.length_cons, List.length_append] at this ⊢
        omega
      · cases h; simp only [flat, List.length_append]; omega

theorem finishOut_data (c : Codec) (sei : Bool) (nr : Bs) (n : NAL) (h : finishOut c sei nr = .nal n) :
    n.data = nr.reverse := by
  unfold finishOut at h
  split at h
  · cases h
  · split at h
    · cases h
    · split at h
      · cases h
      · split at h
        · cases h
        · rename_i n' hp
          injection h with h
          subst h
          exact parseHeader_data c _ _ hp

theorem body_bytes (c : Codec) (sei : Bool) (z : Nat) (nr buf : Bs) (src : List Ev) (n : NAL) (r' : Reader)
    (h : body c sei z nr buf src = (.nal n, r')) :
    r'.bytes + n.data.length ≤ nr.length + buf.length + (flat src).length := by
  unfold body at h
  split at h
  · cases h
  · rename_i nr' z' buf' src' hloop
    have hl := loop_found_bytes _ _ _ _ _ _ _ _ _ _ hloop
    obtain ⟨_, hr⟩ := finish_nal _ _ _ _ _ _ _ _ h
    have hd : n.data = nr'.reverse := finishOut_data c sei nr' n (by
      have := congrArg Prod.fst h; simpa [finish] using this)
    subst hr
    simp only [Reader.bytes, List.length_nil, hd, List.length_reverse]
    omega
  · rename_i nr' z' src' hloop
    have hl := loop_stop_bytes _ _ _ _ _ _ _ _ _ hloop
    obtain ⟨_, hr⟩ := finish_nal _ _ _ _ _ _ _ _ h
    have hd : n.data = nr'.reverse := finishOut_data c sei nr' n (by
      have := congrArg Prod.fst h; simpa [finish] using this)
    subst hr
    simp only [Reader.bytes, List.length_nil, hd, List.length_reverse]
    omega

/-- A `NextNAL` call that returns a unit removes the unit's bytes from the reader for good: the bytes the
    reader holds (buffers + what the stream will still deliver) shrink by at least the unit's length. -/
theorem nextNAL_bytes (r : Reader) (n : NAL) (r' : Reader) (h : nextNAL r = (.nal n, r')) :
    r'.bytes + n.data.length ≤ r.bytes := by
  unfold nextNAL at h
  split at h
  · have := body_bytes _ _ _ _ _ _ _ _ h
    simp only [Reader.bytes] at this ⊢; omega
  · split at h
    · cases h
    · rename_i data buf src hread
      have hrd := read_bytes_ok _ _ _ _ _ _ hread
      split at h
      · cases h
      · rename_i extra hpre
        have := body_bytes _ _ _ _ _ _ _ _ h
        have := startsWithPrefix_extra _ _ hpre
        simp only [Reader.bytes, List.length_append] at *
        omega

/-- the units the loop returns are made of distinct input bytes: their total length — hence their number,
    every unit being non-empty — is bounded by the bytes the reader was given -/
theorem readAll_bytes (r : Reader) : ((readAll r).1.map (·.data.length)).sum ≤ r.bytes := by
  generalize hn : r.size = k
  induction k using Nat.strongRecOn generalizing r with
  | _ k ih =>
    rw [readAll_eq]
    cases hnx : nextNAL r with
    | mk o r' =>
      cases o with
      | nal nal =>
        simp only [List.map_cons, List.sum_cons]
        have hb := nextNAL_bytes r nal r' hnx
        have := ih r'.size (by have := nextNAL_progress r nal r' hnx; omega) r' rfl
        omega
      | err e => simp
      | panic => simp

theorem sum_ge_length (ns : List NAL) (h : ∀ n ∈ ns, n.data ≠ []) : ns.length ≤ (ns.map (·.data.length)).sum := by
  induction ns with
  | nil => simp
  | cons n ns ih =>
    have h1 : 0 < n.data.length := List.length_pos_iff.mpr (h n (by simp))
    have := ih (fun m hm => h m (by simp [hm]))
    simp only [List.length_cons, List.map_cons, List.sum_cons]
    omega

theorem readAll_count (r : Reader) : (readAll r).1.length ≤ r.bytes :=
  Nat.le_trans (sum_ge_length _ (fun n hn => (readAll_all r n hn).1)) (readAll_bytes r)

/-- the loop ends with one of the three errors, never with a panic -/
theorem readAll_end_err (r : Reader) : ∃ e, (readAll r).2 = .err e := by
  have := readAll_no_panic r
  cases h : (readAll r).2 with
  | err e => exact ⟨e, rfl⟩
  | panic => exact absurd h this

/-- a freshly created reader holds exactly the bytes its stream will deliver -/
theorem init_bytes (c : Codec) (sei : Bool) (src : List Ev) : (init c sei src).bytes = (flat src).length := by
  simp [init, Reader.bytes]

/-- A zero-length read `(0, nil)` ends the call: with nothing buffered, `NextNAL` reports `io.EOF` and has
    used up exactly that one `Read`.  (So a stream that answers `(0, nil)` for ever — which a finite event
    list cannot express — makes every call return immediately; it cannot make the loop spin.) -/
theorem nextNAL_zero_read (c : Codec) (sei : Bool) (z : Nat) (rest : List Ev) :
    nextNAL { codec := c, includeSEI := sei, src := .data [] :: rest, readBuffer := [], nalRev := [],
              zeros := z, prefixParsed := true } =
      (.err .eof, { codec := c, includeSEI := sei, src := rest, readBuffer := [], nalRev := [],
                    zeros := z, prefixParsed := true }) := by
  simp [nextNAL, body, loop, scan, finish, finishOut]

/-- the same before the start code has been seen: `read(4)` gives up at the zero-length read -/
theorem nextNAL_zero_read_prefix (c : Codec) (sei : Bool) (rest : List Ev) :
    (nextNAL (init c sei (.data [] :: rest))).1 = .err .eof := by
  simp [nextNAL, init, read, fill, startsWithPrefix]

end AnnexB
end WebrtcVerif
