import WebrtcVerif.Model.SectionSdp
import WebrtcVerif.Proofs.RtxFilterLemmas
/-! Lemmas about the header-extension id assignment and the section emission (C10). -/
namespace WebrtcVerif.SectionSdp
open WebrtcVerif.Codec

/-! ### IdMap -/

def IdMap.keys {β} (m : IdMap β) : List Nat := m.map (·.1)

theorem IdMap.has_iff {β} (m : IdMap β) (k : Nat) : m.has k = true ↔ k ∈ m.keys := by
  unfold IdMap.has IdMap.keys
  simp [List.any_eq_true]

theorem IdMap.insert_of_not_mem {β} : ∀ (m : IdMap β) (k : Nat) (v : β), k ∉ m.keys → m.insert k v = m ++ [(k, v)] := by
  intro m
  induction m with
  | nil => intro k v _; rfl
  | cons kv rest ih =>
    intro k v h
    rcases kv with ⟨k', v'⟩
    have hk : k' ≠ k := by intro e; apply h; simp [IdMap.keys, e]
    have hr : k ∉ IdMap.keys rest := by intro e; apply h; simp [IdMap.keys] at e ⊢; exact Or.inr e
    simp [IdMap.insert, hk, ih k v hr]

theorem IdMap.keys_insert {β} : ∀ (m : IdMap β) (k : Nat) (v : β),
    (m.insert k v).keys = if k ∈ m.keys then m.keys else m.keys ++ [k] := by
  intro m
  induction m with
  | nil => intro k v; simp [IdMap.insert, IdMap.keys]
  | cons kv rest ih =>
    intro k v
    rcases kv with ⟨k', v'⟩
    by_cases hk : k' = k
    · subst hk; simp [IdMap.insert, IdMap.keys]
    · have ih' := ih k v
      simp only [IdMap.keys] at ih' ⊢
      simp only [IdMap.insert, hk, if_false, List.map_cons, ih', List.mem_cons]
      have hk' : ¬ k = k' := fun e => hk e.symm
      by_cases hm : k ∈ List.map (fun x => x.1) rest <;> simp [hm, hk']

theorem IdMap.keys_insert_nodup {β} (m : IdMap β) (k : Nat) (v : β) (h : m.keys.Nodup) : (m.insert k v).keys.Nodup := by
  rw [IdMap.keys_insert]
  split
  · exact h
  · rename_i hk
    exact List.nodup_append.mpr ⟨h, by simp, by intro a ha b hb; simp at hb; subst hb; intro e; subst e; exact hk ha⟩

theorem IdMap.mem_insert {β} : ∀ (m : IdMap β) (k : Nat) (v : β) (kv : Nat × β),
    kv ∈ m.insert k v → kv = (k, v) ∨ kv ∈ m := by
  intro m
  induction m with
  | nil => intro k v kv h; simp [IdMap.insert] at h; exact Or.inl h
  | cons e rest ih =>
    intro k v kv h
    rcases e with ⟨k', v'⟩
    by_cases hk : k' = k
    · simp [IdMap.insert, hk] at h
      rcases h with h | h
      · exact Or.inl h
      · exact Or.inr (List.mem_cons_of_mem _ h)
    · simp only [IdMap.insert, hk, if_false, List.mem_cons] at h
      rcases h with h | h
      · exact Or.inr (by simp [h])
      · rcases ih k v kv h with h | h
        · exact Or.inl h
        · exact Or.inr (List.mem_cons_of_mem _ h)

theorem IdMap.keys_subset_insert {β} (m : IdMap β) (k : Nat) (v : β) : ∀ a ∈ (m.insert k v).keys, a = k ∨ a ∈ m.keys := by
  intro a ha
  rw [IdMap.keys_insert] at ha
  split at ha
  · exact Or.inr ha
  · rcases List.mem_append.mp ha with h | h
    · exact Or.inr h
    · simp at h; exact Or.inl h

/-- two entries of a map with unique keys that share the key are the same entry -/
theorem IdMap.eq_of_key_eq {β} {m : IdMap β} (h : m.keys.Nodup) {p q : Nat × β} (hp : p ∈ m) (hq : q ∈ m)
    (hk : p.1 = q.1) : p = q := by
  induction m with
  | nil => cases hp
  | cons e rest ih =>
    simp only [IdMap.keys, List.map_cons, List.nodup_cons] at h
    rcases List.mem_cons.mp hp with hp1 | hp1
    · rcases List.mem_cons.mp hq with hq1 | hq1
      · rw [hp1, hq1]
      · exfalso; apply h.1; rw [← hp1, hk]; exact List.mem_map_of_mem (f := fun x => x.1) hq1
    · rcases List.mem_cons.mp hq with hq1 | hq1
      · exfalso; apply h.1; rw [← hq1, ← hk]; exact List.mem_map_of_mem (f := fun x => x.1) hp1
      · exact ih h.2 hp1 hq1

/-! ### generic fold invariant -/

theorem foldl_inv {α β} {P : β → Prop} (f : β → α → β) (l : List α) (b : β) (hb : P b)
    (step : ∀ b a, a ∈ l → P b → P (f b a)) : P (l.foldl f b) := by
  induction l generalizing b with
  | nil => exact hb
  | cons a as ih =>
    simp only [List.foldl_cons]
    exact ih (f b a) (step b a List.mem_cons_self hb) (fun b' a' ha' => step b' a' (List.mem_cons_of_mem _ ha'))

/-! ### negotiated header extensions -/

/-- the ids of the negotiated map are unique (it is a map) -/
def NegKeysNodup (x : ExtEngine) : Prop := x.neg.keys.Nodup

theorem updateHeaderExtension_exts (x : ExtEngine) (id : Nat) (uri : Str) (typ : Kind) :
    (updateHeaderExtension x id uri typ).exts = x.exts := by
  unfold updateHeaderExtension
  apply foldl_inv (P := fun (y : ExtEngine) => y.exts = x.exts) _ _ _ rfl
  intro b a _ hb
  by_cases h : (a.uri == uri) = true <;> simp [h, hb]

theorem updateHeaderExtension_keysNodup (x : ExtEngine) (id : Nat) (uri : Str) (typ : Kind) (h : NegKeysNodup x) :
    NegKeysNodup (updateHeaderExtension x id uri typ) := by
  unfold updateHeaderExtension
  apply foldl_inv (P := NegKeysNodup) _ _ _ h
  intro b a _ hb
  by_cases hu : (a.uri == uri) = true
  · simp only [hu, if_true]
    exact IdMap.keys_insert_nodup _ _ _ hb
  · simp only [hu]; exact hb

theorem updateHeaderExtension_keys (x : ExtEngine) (id : Nat) (uri : Str) (typ : Kind) :
    ∀ a ∈ (updateHeaderExtension x id uri typ).neg.keys, a = id ∨ a ∈ x.neg.keys := by
  unfold updateHeaderExtension
  apply foldl_inv (P := fun (y : ExtEngine) => ∀ a ∈ y.neg.keys, a = id ∨ a ∈ x.neg.keys) _ _ _ (fun a ha => Or.inr ha)
  intro b a _ hb k hk
  by_cases hu : (a.uri == uri) = true
  · simp only [hu, if_true] at hk
    rcases IdMap.keys_subset_insert _ _ _ k hk with h | h
    · exact Or.inl h
    · exact hb k h
  · simp only [hu] at hk; exact hb k hk

theorem mem_extensionMap (attrs : List (Str × Nat)) : ∀ a ∈ extensionMap attrs, ∃ b ∈ attrs, a.2 = b.2 ∧ a.1 = b.1 := by
  unfold extensionMap
  apply foldl_inv (P := fun (m : List (Str × Nat)) => ∀ a ∈ m, ∃ b ∈ attrs, a.2 = b.2 ∧ a.1 = b.1) _ _ _ (by simp)
  intro m a ha hm e he
  by_cases hany : (m.any fun kv => kv.1 == a.1) = true
  · simp only [hany, if_true] at he
    rcases List.mem_map.mp he with ⟨kv, hkv, rfl⟩
    by_cases hk : (kv.1 == a.1) = true
    · simp only [hk, if_true]
      exact ⟨a, ha, rfl, by simpa using hk⟩
    · simp only [hk]
      exact hm kv hkv
  · simp only [hany] at he
    rcases List.mem_append.mp he with h | h
    · exact hm e h
    · simp at h; subst h; exact ⟨e, ha, rfl, rfl⟩

theorem updateHeaderExtensions_exts (x : ExtEngine) (typ : Kind) (attrs : List (Str × Nat)) :
    (updateHeaderExtensions x typ attrs).exts = x.exts := by
  unfold updateHeaderExtensions
  cases typ with
  | other => rfl
  | audio =>
    apply foldl_inv (P := fun (y : ExtEngine) => y.exts = x.exts) _ _ _ rfl
    intro b a _ hb; rw [updateHeaderExtension_exts]; exact hb
  | video =>
    apply foldl_inv (P := fun (y : ExtEngine) => y.exts = x.exts) _ _ _ rfl
    intro b a _ hb; rw [updateHeaderExtension_exts]; exact hb

theorem updateHeaderExtensions_keysNodup (x : ExtEngine) (typ : Kind) (attrs : List (Str × Nat)) (h : NegKeysNodup x) :
    NegKeysNodup (updateHeaderExtensions x typ attrs) := by
  unfold updateHeaderExtensions
  cases typ with
  | other => exact h
  | audio =>
    apply foldl_inv (P := NegKeysNodup) _ _ _ h
    intro b a _ hb; exact updateHeaderExtension_keysNodup _ _ _ _ hb
  | video =>
    apply foldl_inv (P := NegKeysNodup) _ _ _ h
    intro b a _ hb; exact updateHeaderExtension_keysNodup _ _ _ _ hb

/-- negotiated ids are ids the remote side used -/
theorem updateHeaderExtensions_keys (x : ExtEngine) (typ : Kind) (attrs : List (Str × Nat)) :
    ∀ a ∈ (updateHeaderExtensions x typ attrs).neg.keys, a ∈ x.neg.keys ∨ ∃ b ∈ attrs, a = b.2 := by
  unfold updateHeaderExtensions
  have key : ∀ a ∈ ((extensionMap attrs).foldl (fun x a => updateHeaderExtension x a.2 a.1 typ) x).neg.keys,
      a ∈ x.neg.keys ∨ ∃ b ∈ attrs, a = b.2 := by
    apply foldl_inv (P := fun (y : ExtEngine) => ∀ a ∈ y.neg.keys, a ∈ x.neg.keys ∨ ∃ b ∈ attrs, a = b.2) _ _ _ (fun a ha => Or.inl ha)
    intro b e he hb k hk
    rcases updateHeaderExtension_keys b e.2 e.1 typ k hk with h | h
    · rcases mem_extensionMap attrs e he with ⟨b', hb', h2, _⟩
      exact Or.inr ⟨b', hb', by rw [h, h2]⟩
    · exact hb k h
  cases typ with
  | other => exact fun a ha => Or.inl ha
  | audio => exact key
  | video => exact key

/-! ### id assignment for a kind that is not negotiated yet -/

/-- registered URIs are unique (RegisterHeaderExtension looks the URI up first) -/
def ExtsUriNodup (x : ExtEngine) : Prop := (x.exts.map (·.uri)).Nodup

/-- every negotiated id lies in the one-byte range -/
def NegIdsInRange (x : ExtEngine) : Prop := ∀ k ∈ x.neg.keys, 1 ≤ k ∧ k ≤ 14

/-- no URI is negotiated under two ids -/
def NegUriNodup (x : ExtEngine) : Prop := (x.neg.map (·.2.uri)).Nodup

/-- one iteration of the loop of `assignIds` -/
def assignStep (neg : IdMap HdrExt) (m : IdMap HdrExt) (ext : HdrExt) : IdMap HdrExt :=
  match neg.find? (fun kv => kv.2.uri == ext.uri) with
  | some (id, _) => m.insert id ext
  | none =>
    match firstFreeId m neg with
    | some id => m.insert id ext
    | none => m

theorem assignIds_eq (x : ExtEngine) : assignIds x = x.exts.foldl (assignStep x.neg) [] := rfl

/-- invariant of the loop: `done` are the URIs handled so far -/
structure AssignInv (neg m : IdMap HdrExt) (done : List Str) : Prop where
  keys : m.keys.Nodup
  uris_done : ∀ kv ∈ m, kv.2.uri ∈ done
  origin : ∀ kv ∈ m, (∃ h, (kv.1, h) ∈ neg ∧ h.uri = kv.2.uri) ∨ (kv.1 ∉ neg.keys ∧ 1 ≤ kv.1 ∧ kv.1 ≤ 14)
  uris : (m.map (·.2.uri)).Nodup

theorem firstFreeId_spec {m neg : IdMap HdrExt} {id : Nat} (h : firstFreeId m neg = some id) :
    1 ≤ id ∧ id ≤ 14 ∧ id ∉ m.keys ∧ id ∉ neg.keys := by
  unfold firstFreeId at h
  have hmem := List.mem_of_find?_eq_some h
  have hp := List.find?_some h
  simp only [List.mem_range'_1] at hmem
  simp only [Bool.and_eq_true, Bool.not_eq_true'] at hp
  refine ⟨hmem.1, by omega, ?_, ?_⟩
  · intro hk; have := (IdMap.has_iff m id).mpr hk; rw [this] at hp; exact absurd hp.1 (by simp)
  · intro hk; have := (IdMap.has_iff neg id).mpr hk; rw [this] at hp; exact absurd hp.2 (by simp)

theorem assignStep_inv {neg m : IdMap HdrExt} {done : List Str} {ext : HdrExt} (hneg : neg.keys.Nodup)
    (hi : AssignInv neg m done) (hnew : ext.uri ∉ done) : AssignInv neg (assignStep neg m ext) (done ++ [ext.uri]) := by
  have appended : ∀ id, id ∉ m.keys →
      ((∃ h, (id, h) ∈ neg ∧ h.uri = ext.uri) ∨ (id ∉ neg.keys ∧ 1 ≤ id ∧ id ≤ 14)) →
      AssignInv neg (m.insert id ext) (done ++ [ext.uri]) := by
    intro id hid horigin
    rw [IdMap.insert_of_not_mem m id ext hid]
    refine ⟨?_, ?_, ?_, ?_⟩
    · have := IdMap.keys_insert_nodup m id ext hi.keys
      rwa [IdMap.insert_of_not_mem m id ext hid] at this
    · intro kv hkv
      rcases List.mem_append.mp hkv with h | h
      · exact List.mem_append_left _ (hi.uris_done kv h)
      · simp at h; subst h; simp
    · intro kv hkv
      rcases List.mem_append.mp hkv with h | h
      · exact hi.origin kv h
      · simp at h; subst h; exact horigin
    · rw [List.map_append]
      refine List.nodup_append.mpr ⟨hi.uris, by simp, ?_⟩
      intro a ha b hb
      simp at hb; subst hb
      rcases List.mem_map.mp ha with ⟨kv, hkv, rfl⟩
      intro e
      exact hnew (e ▸ hi.uris_done kv hkv)
  unfold assignStep
  split
  · rename_i id h hfind
    have hmem : (id, h) ∈ neg := List.mem_of_find?_eq_some hfind
    have huri : h.uri = ext.uri := by simpa using List.find?_some hfind
    apply appended id
    · intro hk
      rcases List.mem_map.mp hk with ⟨kv, hkv, hkvid⟩
      rcases hi.origin kv hkv with ⟨h', hh', hu'⟩ | ⟨hno, _⟩
      · have heq := IdMap.eq_of_key_eq hneg hh' hmem (by simpa using hkvid)
        have : h' = h := by simpa using congrArg Prod.snd heq
        subst this
        exact hnew (by rw [← huri, hu']; exact hi.uris_done kv hkv)
      · apply hno
        rw [hkvid]
        exact List.mem_map_of_mem (f := fun x => x.1) hmem
    · exact Or.inl ⟨h, hmem, huri⟩
  · split
    · rename_i id hfree
      have hs := firstFreeId_spec hfree
      exact appended id hs.2.2.1 (Or.inr ⟨hs.2.2.2, hs.1, hs.2.1⟩)
    · exact ⟨hi.keys, fun kv hkv => List.mem_append_left _ (hi.uris_done kv hkv), hi.origin, hi.uris⟩

theorem assignFold_inv {neg : IdMap HdrExt} (hneg : neg.keys.Nodup) : ∀ (l : List HdrExt) (m : IdMap HdrExt) (done : List Str),
    (l.map (·.uri)).Nodup → (∀ e ∈ l, e.uri ∉ done) → AssignInv neg m done →
    AssignInv neg (l.foldl (assignStep neg) m) (done ++ l.map (·.uri)) := by
  intro l
  induction l with
  | nil => intro m done _ _ hi; simpa using hi
  | cons e es ih =>
    intro m done hnd hfresh hi
    simp only [List.map_cons, List.nodup_cons] at hnd
    have h1 := assignStep_inv hneg hi (hfresh e List.mem_cons_self)
    have := ih (assignStep neg m e) (done ++ [e.uri]) hnd.2 (by
      intro e' he' hmem
      rcases List.mem_append.mp hmem with h | h
      · exact hfresh e' (List.mem_cons_of_mem _ he') h
      · simp at h; exact hnd.1 (h ▸ List.mem_map_of_mem (f := fun x => x.uri) he')) h1
    simpa [List.foldl_cons, List.append_assoc] using this

theorem assignIds_inv {x : ExtEngine} (hk : NegKeysNodup x) (hu : ExtsUriNodup x) :
    AssignInv x.neg (assignIds x) (x.exts.map (·.uri)) := by
  have := assignFold_inv hk x.exts [] [] hu (by simp) ⟨by simp [IdMap.keys], by simp, by simp, by simp⟩
  simpa [assignIds_eq] using this

/-! ### getRTPParametersByKind: the three header-extension clauses of C10 -/

theorem params_ids_nodup {x : ExtEngine} (hk : NegKeysNodup x) (hu : ExtsUriNodup x) (negotiated : Bool) (typ : Kind)
    (dirs : List XDir) : ((headerExtensionParams x negotiated typ dirs).map (·.1)).Nodup := by
  unfold headerExtensionParams
  simp only [List.map_map]
  have hsub : ∀ (src : IdMap HdrExt), src.keys.Nodup →
      (List.map ((fun x : Nat × Str => x.1) ∘ fun kv : Nat × HdrExt => (kv.1, kv.2.uri))
        (src.filter fun kv => dirOk kv.2 dirs && kindOk kv.2 typ)).Nodup := by
    intro src hs
    have : ((fun x : Nat × Str => x.1) ∘ fun kv : Nat × HdrExt => (kv.1, kv.2.uri)) = fun kv => kv.1 := rfl
    rw [this]
    exact (List.filter_sublist.map _).nodup hs
  cases negotiated
  · exact hsub _ (assignIds_inv hk hu).keys
  · exact hsub _ hk

theorem params_uris_nodup {x : ExtEngine} (hk : NegKeysNodup x) (hu : ExtsUriNodup x) (negotiated : Bool) (typ : Kind)
    (dirs : List XDir) (hneg : negotiated = true → NegUriNodup x) :
    ((headerExtensionParams x negotiated typ dirs).map (·.2)).Nodup := by
  unfold headerExtensionParams
  simp only [List.map_map]
  have hsub : ∀ (src : IdMap HdrExt), (src.map (·.2.uri)).Nodup →
      (List.map ((fun x : Nat × Str => x.2) ∘ fun kv : Nat × HdrExt => (kv.1, kv.2.uri))
        (src.filter fun kv => dirOk kv.2 dirs && kindOk kv.2 typ)).Nodup := by
    intro src hs
    have : ((fun x : Nat × Str => x.2) ∘ fun kv : Nat × HdrExt => (kv.1, kv.2.uri)) = fun kv => kv.2.uri := rfl
    rw [this]
    exact (List.filter_sublist.map _).nodup hs
  cases negotiated
  · exact hsub _ (assignIds_inv hk hu).uris
  · exact hsub _ (hneg rfl)

theorem params_ids_in_range {x : ExtEngine} (hk : NegKeysNodup x) (hu : ExtsUriNodup x) (hr : NegIdsInRange x)
    (negotiated : Bool) (typ : Kind) (dirs : List XDir) :
    ∀ p ∈ headerExtensionParams x negotiated typ dirs, 1 ≤ p.1 ∧ p.1 ≤ 14 := by
  intro p hp
  unfold headerExtensionParams at hp
  rcases List.mem_map.mp hp with ⟨kv, hkv, rfl⟩
  have hkv' := (List.mem_filter.mp hkv).1
  cases negotiated
  · simp only [Bool.false_eq_true, if_false] at hkv'
    rcases (assignIds_inv hk hu).origin kv hkv' with ⟨h, hh, _⟩ | ⟨_, h1, h2⟩
    · exact hr kv.1 (List.mem_map_of_mem (f := fun x => x.1) hh)
    · exact ⟨h1, h2⟩
  · simp only [if_true] at hkv'
    exact hr kv.1 (List.mem_map_of_mem (f := fun x => x.1) hkv')

theorem filterExtensions_sublist (params : List (Nat × Str)) (me : Option (List Str)) :
    (filterExtensions params me).Sublist params := by
  unfold filterExtensions
  cases me with
  | none => exact List.Sublist.refl _
  | some uris => exact List.filter_sublist

/-! ### keeping the negotiated ids in range and the negotiated URIs unique -/

theorem updateHeaderExtensions_idsInRange {x : ExtEngine} (typ : Kind) (attrs : List (Str × Nat)) (hr : NegIdsInRange x)
    (ha : ∀ a ∈ attrs, 1 ≤ a.2 ∧ a.2 ≤ 14) : NegIdsInRange (updateHeaderExtensions x typ attrs) := by
  intro k hk
  rcases updateHeaderExtensions_keys x typ attrs k hk with h | ⟨b, hb, rfl⟩
  · exact hr k h
  · exact ha b hb

/-- the (id, URI) table of the negotiated map -/
def uriTable (m : IdMap HdrExt) : List (Nat × Str) := m.map (fun kv => (kv.1, kv.2.uri))

theorem uriTable_insert_same : ∀ (m : IdMap HdrExt) (id : Nat) (h : HdrExt),
    (∀ h0, m.get? id = some h0 → h.uri = h0.uri) → m.has id = true → uriTable (m.insert id h) = uriTable m := by
  intro m
  induction m with
  | nil => intro id h _ hh; simp [IdMap.has] at hh
  | cons e rest ih =>
    intro id h hget hhas
    rcases e with ⟨k, v⟩
    by_cases hk : k = id
    · subst hk
      have : h.uri = v.uri := hget v (by simp [IdMap.get?])
      simp [IdMap.insert, uriTable, this]
    · have hk' : (k == id) = false := by simpa using hk
      have hhas' : IdMap.has rest id = true := by
        simp only [IdMap.has, List.any_cons, hk', Bool.false_or] at hhas; exact hhas
      have hget' : ∀ h0, IdMap.get? rest id = some h0 → h.uri = h0.uri := by
        intro h0 hh; apply hget h0
        simp only [IdMap.get?, List.find?_cons, hk'] at hh ⊢; exact hh
      have := ih id h hget' hhas'
      simp only [uriTable] at this
      simp [IdMap.insert, hk, uriTable, this]

theorem uriTable_update : ∀ (l : List HdrExt) (y : ExtEngine) (id : Nat) (uri : Str) (typ : Kind),
    uriTable (l.foldl (fun x l =>
      if l.uri == uri then
        let h : HdrExt := (x.neg.get? id).getD { uri := uri, dirs := l.dirs }
        let h := if l.isAudio && typ == .audio then { h with isAudio := true }
                 else if l.isVideo && typ == .video then { h with isVideo := true }
                 else h
        { x with neg := x.neg.insert id h }
      else x) y).neg =
      if l.any (fun e => e.uri == uri) && !y.neg.has id then uriTable y.neg ++ [(id, uri)] else uriTable y.neg := by
  intro l
  induction l with
  | nil => intro y id uri typ; simp
  | cons a l ih =>
    intro y id uri typ
    simp only [List.foldl_cons, List.any_cons]
    by_cases ha : (a.uri == uri) = true
    · simp only [ha, if_true, Bool.true_or, Bool.true_and]
      rw [ih]
      -- the entry written for `a`
      generalize hh : (if (a.isAudio && typ == Kind.audio) = true then
          ({ (y.neg.get? id).getD { uri := uri, dirs := a.dirs } with isAudio := true } : HdrExt)
        else if (a.isVideo && typ == Kind.video) = true then
          { (y.neg.get? id).getD { uri := uri, dirs := a.dirs } with isVideo := true }
        else (y.neg.get? id).getD { uri := uri, dirs := a.dirs }) = h
      have huri : h.uri = ((y.neg.get? id).getD { uri := uri, dirs := a.dirs }).uri := by
        rw [← hh]; split
        · rfl
        · split <;> rfl
      have hhas : IdMap.has (y.neg.insert id h) id = true := by
        rw [IdMap.has_iff, IdMap.keys_insert]; split
        · assumption
        · simp
      simp only [hhas, Bool.not_true, Bool.and_false, Bool.false_eq_true, if_false]
      by_cases hy : y.neg.has id = true
      · simp only [hy, Bool.not_true, Bool.false_eq_true, if_false]
        apply uriTable_insert_same _ _ _ _ hy
        intro h0 hh0
        rw [huri, hh0]; rfl
      · have hy' : y.neg.has id = false := by simpa using hy
        simp only [hy', Bool.not_false, if_true]
        have hnk : id ∉ y.neg.keys := fun hk => hy ((IdMap.has_iff _ _).mpr hk)
        rw [IdMap.insert_of_not_mem _ _ _ hnk]
        have hnone : y.neg.get? id = none := by
          unfold IdMap.get?
          rw [Option.map_eq_none_iff, List.find?_eq_none]
          intro kv hkv hk
          apply hnk; simp at hk; rw [← hk]; exact List.mem_map_of_mem (f := fun x => x.1) hkv
        rw [hnone] at huri
        simp [uriTable, huri]
    · have ha' : (a.uri == uri) = false := by simpa using ha
      simp only [ha', Bool.false_eq_true, if_false, Bool.false_or]
      exact ih y id uri typ

theorem uriTable_updateHeaderExtension (x : ExtEngine) (id : Nat) (uri : Str) (typ : Kind) :
    uriTable (updateHeaderExtension x id uri typ).neg =
      if x.exts.any (fun e => e.uri == uri) && !x.neg.has id then uriTable x.neg ++ [(id, uri)] else uriTable x.neg := by
  unfold updateHeaderExtension
  exact uriTable_update x.exts x id uri typ

theorem negUriNodup_iff (x : ExtEngine) : NegUriNodup x ↔ ((uriTable x.neg).map (·.2)).Nodup := by
  unfold NegUriNodup uriTable; simp [List.map_map, Function.comp_def]

theorem uriTable_keys (m : IdMap HdrExt) : (uriTable m).map (·.1) = m.keys := by
  unfold uriTable IdMap.keys; simp [List.map_map, Function.comp_def]

/-- one remote (URI, id) pair keeps the URIs unique when the URI is not already negotiated under another id -/
theorem updateHeaderExtension_uriNodup {x : ExtEngine} (id : Nat) (uri : Str) (typ : Kind)
    (hu : NegUriNodup x) (hcons : ∀ e ∈ uriTable x.neg, e.2 = uri → e.1 = id) :
    NegUriNodup (updateHeaderExtension x id uri typ) := by
  rw [negUriNodup_iff] at hu ⊢
  rw [uriTable_updateHeaderExtension]
  split
  · rename_i hc
    simp only [Bool.and_eq_true, Bool.not_eq_true'] at hc
    rw [List.map_append]
    refine List.nodup_append.mpr ⟨hu, by simp, ?_⟩
    intro a ha b hb
    simp at hb; subst hb
    intro e; subst e
    rcases List.mem_map.mp ha with ⟨e, he, rfl⟩
    have hid := hcons e he rfl
    have : id ∈ x.neg.keys := by rw [← uriTable_keys, ← hid]; exact List.mem_map_of_mem (f := fun x => x.1) he
    have := (IdMap.has_iff _ _).mpr this
    rw [this] at hc; exact absurd hc.2 (by simp)
  · exact hu

theorem uriTable_updateHeaderExtension_mem (x : ExtEngine) (id : Nat) (uri : Str) (typ : Kind) :
    ∀ e ∈ uriTable (updateHeaderExtension x id uri typ).neg, e ∈ uriTable x.neg ∨ e = (id, uri) := by
  intro e he
  rw [uriTable_updateHeaderExtension] at he
  split at he
  · rcases List.mem_append.mp he with h | h
    · exact Or.inl h
    · simp at h; exact Or.inr h
  · exact Or.inl he

theorem extensionMap_uris_nodup (attrs : List (Str × Nat)) : ((extensionMap attrs).map (·.1)).Nodup := by
  unfold extensionMap
  apply foldl_inv (P := fun (m : List (Str × Nat)) => (m.map (·.1)).Nodup) _ _ _ (by simp)
  intro m a _ hm
  by_cases hany : (m.any fun kv => kv.1 == a.1) = true
  · simp only [hany, if_true, List.map_map]
    have : ((fun x : Str × Nat => x.1) ∘ fun kv : Str × Nat => if (kv.1 == a.1) = true then (kv.1, a.2) else kv) =
        fun kv => kv.1 := by
      funext kv; simp only [Function.comp]; split <;> rfl
    rw [this]; exact hm
  · simp only [hany, Bool.false_eq_true, if_false]
    rw [List.map_append]
    refine List.nodup_append.mpr ⟨hm, by simp, ?_⟩
    intro u hu b hb
    simp at hb; subst hb
    intro e; subst e
    apply hany
    rcases List.mem_map.mp hu with ⟨kv, hkv, hk⟩
    exact List.any_eq_true.mpr ⟨kv, hkv, by simpa using hk⟩

theorem foldUpdate_uriNodup (typ : Kind) : ∀ (M : List (Str × Nat)) (y : ExtEngine), (M.map (·.1)).Nodup →
    NegUriNodup y → (∀ a ∈ M, ∀ e ∈ uriTable y.neg, e.2 = a.1 → e.1 = a.2) →
    NegUriNodup (M.foldl (fun x a => updateHeaderExtension x a.2 a.1 typ) y) := by
  intro M
  induction M with
  | nil => intro y _ hu _; exact hu
  | cons a rest ih =>
    intro y hnd hu hc
    simp only [List.map_cons, List.nodup_cons] at hnd
    simp only [List.foldl_cons]
    apply ih _ hnd.2 (updateHeaderExtension_uriNodup a.2 a.1 typ hu (hc a List.mem_cons_self))
    intro b hb e he hbe
    rcases uriTable_updateHeaderExtension_mem y a.2 a.1 typ e he with h | h
    · exact hc b (List.mem_cons_of_mem _ hb) e h hbe
    · subst h
      exfalso; apply hnd.1
      simp only at hbe
      rw [hbe]; exact List.mem_map_of_mem (f := fun x => x.1) hb

/-- a remote section keeps the negotiated URIs unique when it does not renumber a URI that is already negotiated -/
theorem updateHeaderExtensions_uriNodup {x : ExtEngine} (typ : Kind) (attrs : List (Str × Nat)) (hu : NegUriNodup x)
    (hc : ∀ a ∈ extensionMap attrs, ∀ e ∈ uriTable x.neg, e.2 = a.1 → e.1 = a.2) :
    NegUriNodup (updateHeaderExtensions x typ attrs) := by
  unfold updateHeaderExtensions
  cases typ with
  | other => exact hu
  | audio => exact foldUpdate_uriNodup _ _ _ (extensionMap_uris_nodup attrs) hu hc
  | video => exact foldUpdate_uriNodup _ _ _ (extensionMap_uris_nodup attrs) hu hc

/-- every negotiated (id, URI) pair follows one table URI ↦ id -/
def Respects (tbl : Str → Nat) (x : ExtEngine) : Prop := ∀ e ∈ uriTable x.neg, e.1 = tbl e.2

/-- remote sections that number their URIs by one table keep the negotiated URIs unique -/
theorem updateHeaderExtensions_respects {x : ExtEngine} (tbl : Str → Nat) (typ : Kind) (attrs : List (Str × Nat))
    (ha : ∀ a ∈ attrs, a.2 = tbl a.1) (hr : Respects tbl x) (hu : NegUriNodup x) :
    Respects tbl (updateHeaderExtensions x typ attrs) ∧ NegUriNodup (updateHeaderExtensions x typ attrs) := by
  have hM : ∀ a ∈ extensionMap attrs, a.2 = tbl a.1 := by
    intro a hm
    rcases mem_extensionMap attrs a hm with ⟨b, hb, h2, h1⟩
    rw [h2, h1]; exact ha b hb
  constructor
  · unfold updateHeaderExtensions
    have key : Respects tbl ((extensionMap attrs).foldl (fun x a => updateHeaderExtension x a.2 a.1 typ) x) := by
      apply foldl_inv (P := Respects tbl) _ _ _ hr
      intro y a hmem hy e he
      rcases uriTable_updateHeaderExtension_mem y a.2 a.1 typ e he with h | h
      · exact hy e h
      · subst h; exact hM a hmem
    cases typ with
    | other => exact hr
    | audio => exact key
    | video => exact key
  · apply updateHeaderExtensions_uriNodup typ attrs hu
    intro a hm e he hea
    rw [hr e he, hea, hM a hm]

/-! ### the codec loop of addTransceiverSDP -/

theorem emit_rtpmaps_listed (cs : List CodecP) (x : List (Nat × Str)) :
    ∀ r ∈ (emitCodecs cs x).rtpmaps, r.1 ∈ (emitCodecs cs x).formats := by
  intro r hr
  simp only [emitCodecs] at hr ⊢
  rcases List.mem_map.mp hr with ⟨c, hc, rfl⟩
  exact List.mem_map_of_mem (f := fun c => c.pt) hc

theorem emit_fmtps_listed (cs : List CodecP) (x : List (Nat × Str)) :
    ∀ r ∈ (emitCodecs cs x).fmtps, r.1 ∈ (emitCodecs cs x).formats := by
  intro r hr
  simp only [emitCodecs] at hr ⊢
  rcases List.mem_filterMap.mp hr with ⟨c, hc, hcr⟩
  by_cases he : c.fmtp.isEmpty = true
  · simp [he] at hcr
  · simp only [he, Bool.false_eq_true, if_false, Option.some.injEq] at hcr
    subst hcr
    exact List.mem_map_of_mem (f := fun c => c.pt) hc

theorem emit_fbs_listed (cs : List CodecP) (x : List (Nat × Str)) :
    ∀ r ∈ (emitCodecs cs x).fbs, r.1 ∈ (emitCodecs cs x).formats := by
  intro r hr
  simp only [emitCodecs] at hr ⊢
  rcases List.mem_flatMap.mp hr with ⟨c, hc, hcr⟩
  rcases List.mem_map.mp hcr with ⟨f, _, rfl⟩
  exact List.mem_map_of_mem (f := fun c => c.pt) hc

end WebrtcVerif.SectionSdp
