import WebrtcVerif.Model.DcState
/-! Helper lemmas for C20: projection lemmas of the model's state updates, and the invariants. -/
namespace WebrtcVerif.DcState

/-! ### projections (generated mechanically: one per field) -/

@[simp] theorem store_graceful (s : St) (n : RS) : (store s n).graceful = s.graceful := rfl
@[simp] theorem store_dcSet (s : St) (n : RS) : (store s n).dcSet = s.dcSet := rfl
@[simp] theorem store_rla (s : St) (n : RS) : (store s n).rla = s.rla := rfl
@[simp] theorem store_opener (s : St) (n : RS) : (store s n).opener = s.opener := rfl
@[simp] theorem store_closers (s : St) (n : RS) : (store s n).closers = s.closers := rfl
@[simp] theorem store_reader (s : St) (n : RS) : (store s n).reader = s.reader := rfl
@[simp] theorem store_pcs (s : St) (n : RS) : (store s n).pcs = s.pcs := rfl
@[simp] theorem store_pcClosed (s : St) (n : RS) : (store s n).pcClosed = s.pcClosed := rfl
@[simp] theorem store_streamOpen (s : St) (n : RS) : (store s n).streamOpen = s.streamOpen := rfl
@[simp] theorem store_assocDown (s : St) (n : RS) : (store s n).assocDown = s.assocDown := rfl
@[simp] theorem store_remoteClosed (s : St) (n : RS) : (store s n).remoteClosed = s.remoteClosed := rfl
@[simp] theorem store_eof (s : St) (n : RS) : (store s n).eof = s.eof := rfl
@[simp] theorem store_ackQueued (s : St) (n : RS) : (store s n).ackQueued = s.ackQueued := rfl
@[simp] theorem store_ackSent (s : St) (n : RS) : (store s n).ackSent = s.ackSent := rfl
@[simp] theorem store_ackArmed (s : St) (n : RS) : (store s n).ackArmed = s.ackArmed := rfl
@[simp] theorem store_ackFired (s : St) (n : RS) : (store s n).ackFired = s.ackFired := rfl
@[simp] theorem store_onOpenCalls (s : St) (n : RS) : (store s n).onOpenCalls = s.onOpenCalls := rfl
@[simp] theorem store_openPending (s : St) (n : RS) : (store s n).openPending = s.openPending := rfl
@[simp] theorem store_openOnce (s : St) (n : RS) : (store s n).openOnce = s.openOnce := rfl
@[simp] theorem store_openFired (s : St) (n : RS) : (store s n).openFired = s.openFired := rfl
@[simp] theorem store_closePending (s : St) (n : RS) : (store s n).closePending = s.closePending := rfl
@[simp] theorem store_closeOnce (s : St) (n : RS) : (store s n).closeOnce = s.closeOnce := rfl
@[simp] theorem store_closeFired (s : St) (n : RS) : (store s n).closeFired = s.closeFired := rfl
@[simp] theorem store_sends (s : St) (n : RS) : (store s n).sends = s.sends := rfl
@[simp] theorem store_pcSetDone (s : St) (n : RS) : (store s n).pcSetDone = s.pcSetDone := rfl
@[simp] theorem store_openLate (s : St) (n : RS) : (store s n).openLate = s.openLate := rfl
@[simp] theorem callOnOpen_openLate (cfg : Cfg) (s : St) : (callOnOpen cfg s).openLate = s.openLate := by unfold callOnOpen; split <;> rfl
@[simp] theorem callOnClose_openLate (cfg : Cfg) (s : St) : (callOnClose cfg s).openLate = s.openLate := by unfold callOnClose; split <;> rfl
@[simp] theorem store_closeLate (s : St) (n : RS) : (store s n).closeLate = s.closeLate := rfl
@[simp] theorem callOnOpen_closeLate (cfg : Cfg) (s : St) : (callOnOpen cfg s).closeLate = s.closeLate := by unfold callOnOpen; split <;> rfl
@[simp] theorem callOnClose_closeLate (cfg : Cfg) (s : St) : (callOnClose cfg s).closeLate = s.closeLate := by unfold callOnClose; split <;> rfl
@[simp] theorem store_rs (s : St) (n : RS) : (store s n).rs = setRS s.rs n := rfl
@[simp] theorem store_hist (s : St) (n : RS) : (store s n).hist = if setRS s.rs n = s.rs then s.hist else s.hist ++ [setRS s.rs n] := rfl
@[simp] theorem callOnOpen_rs (cfg : Cfg) (s : St) : (callOnOpen cfg s).rs = s.rs := by unfold callOnOpen; split <;> rfl
@[simp] theorem callOnClose_rs (cfg : Cfg) (s : St) : (callOnClose cfg s).rs = s.rs := by unfold callOnClose; split <;> rfl
@[simp] theorem callOnOpen_graceful (cfg : Cfg) (s : St) : (callOnOpen cfg s).graceful = s.graceful := by unfold callOnOpen; split <;> rfl
@[simp] theorem callOnClose_graceful (cfg : Cfg) (s : St) : (callOnClose cfg s).graceful = s.graceful := by unfold callOnClose; split <;> rfl
@[simp] theorem callOnOpen_dcSet (cfg : Cfg) (s : St) : (callOnOpen cfg s).dcSet = s.dcSet := by unfold callOnOpen; split <;> rfl
@[simp] theorem callOnClose_dcSet (cfg : Cfg) (s : St) : (callOnClose cfg s).dcSet = s.dcSet := by unfold callOnClose; split <;> rfl
@[simp] theorem callOnOpen_rla (cfg : Cfg) (s : St) : (callOnOpen cfg s).rla = s.rla := by unfold callOnOpen; split <;> rfl
@[simp] theorem callOnClose_rla (cfg : Cfg) (s : St) : (callOnClose cfg s).rla = s.rla := by unfold callOnClose; split <;> rfl
@[simp] theorem callOnOpen_opener (cfg : Cfg) (s : St) : (callOnOpen cfg s).opener = s.opener := by unfold callOnOpen; split <;> rfl
@[simp] theorem callOnClose_opener (cfg : Cfg) (s : St) : (callOnClose cfg s).opener = s.opener := by unfold callOnClose; split <;> rfl
@[simp] theorem callOnOpen_closers (cfg : Cfg) (s : St) : (callOnOpen cfg s).closers = s.closers := by unfold callOnOpen; split <;> rfl
@[simp] theorem callOnClose_closers (cfg : Cfg) (s : St) : (callOnClose cfg s).closers = s.closers := by unfold callOnClose; split <;> rfl
@[simp] theorem callOnOpen_reader (cfg : Cfg) (s : St) : (callOnOpen cfg s).reader = s.reader := by unfold callOnOpen; split <;> rfl
@[simp] theorem callOnClose_reader (cfg : Cfg) (s : St) : (callOnClose cfg s).reader = s.reader := by unfold callOnClose; split <;> rfl
@[simp] theorem callOnOpen_pcs (cfg : Cfg) (s : St) : (callOnOpen cfg s).pcs = s.pcs := by unfold callOnOpen; split <;> rfl
@[simp] theorem callOnClose_pcs (cfg : Cfg) (s : St) : (callOnClose cfg s).pcs = s.pcs := by unfold callOnClose; split <;> rfl
@[simp] theorem callOnOpen_pcClosed (cfg : Cfg) (s : St) : (callOnOpen cfg s).pcClosed = s.pcClosed := by unfold callOnOpen; split <;> rfl
@[simp] theorem callOnClose_pcClosed (cfg : Cfg) (s : St) : (callOnClose cfg s).pcClosed = s.pcClosed := by unfold callOnClose; split <;> rfl
@[simp] theorem callOnOpen_streamOpen (cfg : Cfg) (s : St) : (callOnOpen cfg s).streamOpen = s.streamOpen := by unfold callOnOpen; split <;> rfl
@[simp] theorem callOnClose_streamOpen (cfg : Cfg) (s : St) : (callOnClose cfg s).streamOpen = s.streamOpen := by unfold callOnClose; split <;> rfl
@[simp] theorem callOnOpen_assocDown (cfg : Cfg) (s : St) : (callOnOpen cfg s).assocDown = s.assocDown := by unfold callOnOpen; split <;> rfl
@[simp] theorem callOnClose_assocDown (cfg : Cfg) (s : St) : (callOnClose cfg s).assocDown = s.assocDown := by unfold callOnClose; split <;> rfl
@[simp] theorem callOnOpen_remoteClosed (cfg : Cfg) (s : St) : (callOnOpen cfg s).remoteClosed = s.remoteClosed := by unfold callOnOpen; split <;> rfl
@[simp] theorem callOnClose_remoteClosed (cfg : Cfg) (s : St) : (callOnClose cfg s).remoteClosed = s.remoteClosed := by unfold callOnClose; split <;> rfl
@[simp] theorem callOnOpen_eof (cfg : Cfg) (s : St) : (callOnOpen cfg s).eof = s.eof := by unfold callOnOpen; split <;> rfl
@[simp] theorem callOnClose_eof (cfg : Cfg) (s : St) : (callOnClose cfg s).eof = s.eof := by unfold callOnClose; split <;> rfl
@[simp] theorem callOnOpen_ackQueued (cfg : Cfg) (s : St) : (callOnOpen cfg s).ackQueued = s.ackQueued := by unfold callOnOpen; split <;> rfl
@[simp] theorem callOnClose_ackQueued (cfg : Cfg) (s : St) : (callOnClose cfg s).ackQueued = s.ackQueued := by unfold callOnClose; split <;> rfl
@[simp] theorem callOnOpen_ackSent (cfg : Cfg) (s : St) : (callOnOpen cfg s).ackSent = s.ackSent := by unfold callOnOpen; split <;> rfl
@[simp] theorem callOnClose_ackSent (cfg : Cfg) (s : St) : (callOnClose cfg s).ackSent = s.ackSent := by unfold callOnClose; split <;> rfl
@[simp] theorem callOnOpen_ackArmed (cfg : Cfg) (s : St) : (callOnOpen cfg s).ackArmed = s.ackArmed := by unfold callOnOpen; split <;> rfl
@[simp] theorem callOnClose_ackArmed (cfg : Cfg) (s : St) : (callOnClose cfg s).ackArmed = s.ackArmed := by unfold callOnClose; split <;> rfl
@[simp] theorem callOnOpen_ackFired (cfg : Cfg) (s : St) : (callOnOpen cfg s).ackFired = s.ackFired := by unfold callOnOpen; split <;> rfl
@[simp] theorem callOnClose_ackFired (cfg : Cfg) (s : St) : (callOnClose cfg s).ackFired = s.ackFired := by unfold callOnClose; split <;> rfl
@[simp] theorem callOnOpen_onOpenCalls (cfg : Cfg) (s : St) : (callOnOpen cfg s).onOpenCalls = s.onOpenCalls := by unfold callOnOpen; split <;> rfl
@[simp] theorem callOnClose_onOpenCalls (cfg : Cfg) (s : St) : (callOnClose cfg s).onOpenCalls = s.onOpenCalls := by unfold callOnClose; split <;> rfl
@[simp] theorem callOnClose_openPending (cfg : Cfg) (s : St) : (callOnClose cfg s).openPending = s.openPending := by unfold callOnClose; split <;> rfl
@[simp] theorem callOnOpen_openOnce (cfg : Cfg) (s : St) : (callOnOpen cfg s).openOnce = s.openOnce := by unfold callOnOpen; split <;> rfl
@[simp] theorem callOnClose_openOnce (cfg : Cfg) (s : St) : (callOnClose cfg s).openOnce = s.openOnce := by unfold callOnClose; split <;> rfl
@[simp] theorem callOnOpen_openFired (cfg : Cfg) (s : St) : (callOnOpen cfg s).openFired = s.openFired := by unfold callOnOpen; split <;> rfl
@[simp] theorem callOnClose_openFired (cfg : Cfg) (s : St) : (callOnClose cfg s).openFired = s.openFired := by unfold callOnClose; split <;> rfl
@[simp] theorem callOnOpen_closePending (cfg : Cfg) (s : St) : (callOnOpen cfg s).closePending = s.closePending := by unfold callOnOpen; split <;> rfl
@[simp] theorem callOnOpen_closeOnce (cfg : Cfg) (s : St) : (callOnOpen cfg s).closeOnce = s.closeOnce := by unfold callOnOpen; split <;> rfl
@[simp] theorem callOnClose_closeOnce (cfg : Cfg) (s : St) : (callOnClose cfg s).closeOnce = s.closeOnce := by unfold callOnClose; split <;> rfl
@[simp] theorem callOnOpen_closeFired (cfg : Cfg) (s : St) : (callOnOpen cfg s).closeFired = s.closeFired := by unfold callOnOpen; split <;> rfl
@[simp] theorem callOnClose_closeFired (cfg : Cfg) (s : St) : (callOnClose cfg s).closeFired = s.closeFired := by unfold callOnClose; split <;> rfl
@[simp] theorem callOnOpen_hist (cfg : Cfg) (s : St) : (callOnOpen cfg s).hist = s.hist := by unfold callOnOpen; split <;> rfl
@[simp] theorem callOnClose_hist (cfg : Cfg) (s : St) : (callOnClose cfg s).hist = s.hist := by unfold callOnClose; split <;> rfl
@[simp] theorem callOnOpen_sends (cfg : Cfg) (s : St) : (callOnOpen cfg s).sends = s.sends := by unfold callOnOpen; split <;> rfl
@[simp] theorem callOnClose_sends (cfg : Cfg) (s : St) : (callOnClose cfg s).sends = s.sends := by unfold callOnClose; split <;> rfl
@[simp] theorem callOnOpen_pcSetDone (cfg : Cfg) (s : St) : (callOnOpen cfg s).pcSetDone = s.pcSetDone := by unfold callOnOpen; split <;> rfl
@[simp] theorem callOnClose_pcSetDone (cfg : Cfg) (s : St) : (callOnClose cfg s).pcSetDone = s.pcSetDone := by unfold callOnClose; split <;> rfl
@[simp] theorem callOnOpen_openPending (cfg : Cfg) (s : St) : (callOnOpen cfg s).openPending = if !s.graceful && hasOpenH cfg s then s.openPending + 1 else s.openPending := by unfold callOnOpen; split <;> rfl
@[simp] theorem callOnClose_closePending (cfg : Cfg) (s : St) : (callOnClose cfg s).closePending = if hasCloseH cfg s then s.closePending + 1 else s.closePending := by unfold callOnClose; split <;> rfl

attribute [simp] hasOpenH hasCloseH

/-! ### `setRS` -/

@[simp] theorem setRS_closed (c : RS) : setRS c .closed = .closed := by cases c <;> rfl
@[simp] theorem setRS_of_closed (n : RS) : setRS .closed n = .closed := by cases n <;> rfl
@[simp] theorem setRS_self (c : RS) : setRS c c = c := by cases c <;> rfl
@[simp] theorem setRS_eq_connecting (c n : RS) : setRS c n = .connecting ↔ c = .connecting ∧ n = .connecting := by
  cases c <;> cases n <;> simp [setRS, RS.rank]
@[simp] theorem setRS_closing_eq_open (c : RS) : setRS c .closing = .open ↔ False := by
  cases c <;> simp [setRS, RS.rank]
@[simp] theorem setRS_open_eq_open (c : RS) : setRS c .open = .open ↔ c = .connecting ∨ c = .open := by
  cases c <;> simp [setRS, RS.rank]

theorem le_rank_setRS (c n : RS) : c.rank ≤ (setRS c n).rank := by
  unfold setRS; split <;> omega

theorem setRS_eq_or (c n : RS) : setRS c n = c ∨ (setRS c n = n ∧ c.rank < n.rank) := by
  unfold setRS; split
  · exact Or.inr ⟨rfl, by assumption⟩
  · exact Or.inl rfl

theorem rank_inj {a b : RS} (h : a.rank = b.rank) : a = b := by
  cases a <;> cases b <;> simp [RS.rank] at h <;> rfl

theorem rank_le_three (a : RS) : a.rank ≤ 3 := by cases a <;> simp [RS.rank]

theorem eq_closed_of_rank {a : RS} (h : 3 ≤ a.rank) : a = .closed := by
  cases a <;> simp [RS.rank] at h <;> rfl

/-! ### case analysis of one step -/

/-- unfold `step` for a concrete action, split every branch, and substitute the successor state -/
macro "step_cases" h:ident : tactic =>
  `(tactic| (simp only [step] at $h:ident <;> (repeat' split at $h:ident) <;>
      (first | (injection $h:ident with $h:ident; subst $h:ident) | (cases $h:ident))))

/-- `readyState` and its history change only through `store` -/
theorem step_rs_hist {cfg : Cfg} {s s' : St} {a : Action} (h : step cfg s a = some s') :
    (s'.rs = s.rs ∧ s'.hist = s.hist) ∨ ∃ n, s'.rs = (store s n).rs ∧ s'.hist = (store s n).hist := by
  cases a <;> step_cases h <;>
    first
    | exact Or.inl ⟨rfl, rfl⟩
    | exact Or.inl ⟨callOnOpen_rs _ _, callOnOpen_hist _ _⟩
    | exact Or.inr ⟨_, rfl, rfl⟩
    | exact Or.inr ⟨_, callOnClose_rs _ _, callOnClose_hist _ _⟩

/-! ### history invariant -/

structure HistOK (rs : RS) (hist : List RS) : Prop where
  sorted : hist.Pairwise RS.lt
  le : ∀ x ∈ hist, x.rank ≤ rs.rank
  last : hist.getLast? = some rs
  first : hist.head? = some .connecting

theorem histOK_init : HistOK .connecting [.connecting] :=
  ⟨by simp, by simp, rfl, rfl⟩

theorem histOK_store {s : St} (n : RS) (h : HistOK s.rs s.hist) : HistOK (store s n).rs (store s n).hist := by
  simp only [store_rs, store_hist]
  rcases setRS_eq_or s.rs n with he | ⟨he, hlt⟩
  · rw [he]; simpa using h
  · have hne : setRS s.rs n ≠ s.rs := by
      intro hc; rw [he] at hc; rw [hc] at hlt; omega
    rw [if_neg hne, he]
    refine ⟨?_, ?_, by simp, ?_⟩
    · rw [List.pairwise_append]
      refine ⟨h.sorted, by simp, ?_⟩
      intro x hx y hy
      simp at hy; subst hy
      have := h.le x hx
      show x.rank < _
      omega
    · intro x hx
      simp at hx
      rcases hx with hx | hx
      · have := h.le x hx; omega
      · subst hx; omega
    · have := h.first
      cases hh : s.hist with
      | nil => rw [hh] at this; simp at this
      | cons a t => rw [hh] at this; simpa using this

theorem histOK_step {cfg : Cfg} {s s' : St} {a : Action} (h : step cfg s a = some s') (hi : HistOK s.rs s.hist) :
    HistOK s'.rs s'.hist := by
  rcases step_rs_hist h with ⟨h1, h2⟩ | ⟨n, h1, h2⟩
  · rw [h1, h2]; exact hi
  · rw [h1, h2]; exact histOK_store n hi

theorem histOK_of_reachable {cfg : Cfg} {nc np : Nat} {s : St} (h : Reachable cfg nc np s) : HistOK s.rs s.hist := by
  induction h with
  | init => exact histOK_init
  | step a _ hs ih => exact histOK_step hs ih

/-- one step never moves `readyState` backwards (holds in every state, reachable or not) -/
theorem step_rank_le {cfg : Cfg} {s s' : St} {a : Action} (h : step cfg s a = some s') : s.rs.rank ≤ s'.rs.rank := by
  rcases step_rs_hist h with ⟨h1, _⟩ | ⟨n, h1, _⟩
  · rw [h1]; exact Nat.le_refl _
  · rw [h1, store_rs]; exact le_rank_setRS _ _

/-! ### the state invariant

  Every field is preserved by every action; the proof is one case split per action (`step_cases`) followed
  by `simp` with the projection lemmas above. -/

structure Inv (cfg : Cfg) (s : St) : Prop where
  once_open : s.openFired = if s.openOnce then 1 else 0
  once_close : s.closeFired = if s.closeOnce then 1 else 0
  sends_ok : ∀ e ∈ s.sends, e.1 ≠ .open → e.2 = .rejected
  gap_dc : s.opener = .gap → s.dcSet = true
  open_dc : s.rs = .open → s.dcSet = true
  reader_opener : s.reader ≠ none → s.opener = .done
  fin_none : cfg.detach = false → s.opener = .done → s.reader = none → s.rs = .closed
  fin_done : s.reader = some .done → s.rs = .closed
  pc_set : s.pcSetDone = true → s.rs = .closed
  close_ev : (0 < s.closePending ∨ 0 < s.closeFired) → s.rs = .closed
  opened_rank : s.opener ≠ .idle → s.opener ≠ .early → s.opener ≠ .gap → s.rs ≠ .connecting
  armed_rank : s.ackArmed = true → s.rs ≠ .connecting
  calls_rank : 0 < s.onOpenCalls → s.rs ≠ .connecting
  pend_rank : 0 < s.openPending → s.rs ≠ .connecting
  fired_rank : 0 < s.openFired → s.rs ≠ .connecting
  rla_reader : s.rla = some true → s.reader = some .done
  detach_reader : cfg.detach = true → s.reader = none
  no_open_h : hasOpenH cfg s = false → s.openFired = 0 ∧ s.openPending = 0 ∧ s.openOnce = false
  no_close_h : hasCloseH cfg s = false → s.closeFired = 0 ∧ s.closePending = 0 ∧ s.closeOnce = false

theorem inv_init (cfg : Cfg) (nc np : Nat) : Inv cfg (init nc np) := by
  constructor <;> simp [init, hasOpenH, hasCloseH]

theorem inv_open1 {cfg : Cfg} {s s' : St}  (hi : Inv cfg s) (h : step cfg s (.open1 ) = some s') : Inv cfg s' := by
  obtain ⟨h1, h2, h3, h4, h5, h6, h7, h8, h9, h10, h11, h12, h13, h14, h15, h16, h17, h18, h19⟩ := hi
  step_cases h <;> constructor <;> first | assumption | (simp_all; done) | (simp_all <;> omega)

theorem inv_openEarly {cfg : Cfg} {s s' : St}  (hi : Inv cfg s) (h : step cfg s (.openEarly ) = some s') : Inv cfg s' := by
  obtain ⟨h1, h2, h3, h4, h5, h6, h7, h8, h9, h10, h11, h12, h13, h14, h15, h16, h17, h18, h19⟩ := hi
  step_cases h <;> constructor <;> first | assumption | (simp_all; done) | (simp_all <;> omega)

theorem inv_open2 {cfg : Cfg} {s s' : St}  (hi : Inv cfg s) (h : step cfg s (.open2 ) = some s') : Inv cfg s' := by
  obtain ⟨h1, h2, h3, h4, h5, h6, h7, h8, h9, h10, h11, h12, h13, h14, h15, h16, h17, h18, h19⟩ := hi
  step_cases h <;> constructor <;> first | assumption | (simp_all; done) | (simp_all <;> omega)

theorem inv_open3 {cfg : Cfg} {s s' : St}  (hi : Inv cfg s) (h : step cfg s (.open3 ) = some s') : Inv cfg s' := by
  obtain ⟨h1, h2, h3, h4, h5, h6, h7, h8, h9, h10, h11, h12, h13, h14, h15, h16, h17, h18, h19⟩ := hi
  step_cases h <;> constructor <;> first | assumption | (simp_all; done) | (simp_all <;> omega)

theorem inv_open4 {cfg : Cfg} {s s' : St}  (hi : Inv cfg s) (h : step cfg s (.open4 ) = some s') : Inv cfg s' := by
  obtain ⟨h1, h2, h3, h4, h5, h6, h7, h8, h9, h10, h11, h12, h13, h14, h15, h16, h17, h18, h19⟩ := hi
  step_cases h <;> constructor <;> first | assumption | (simp_all; done) | (simp_all <;> omega)

theorem inv_open5 {cfg : Cfg} {s s' : St}  (hi : Inv cfg s) (h : step cfg s (.open5 ) = some s') : Inv cfg s' := by
  obtain ⟨h1, h2, h3, h4, h5, h6, h7, h8, h9, h10, h11, h12, h13, h14, h15, h16, h17, h18, h19⟩ := hi
  step_cases h <;> constructor <;> first | assumption | (simp_all; done) | (simp_all <;> omega)

theorem inv_closeBegin {cfg : Cfg} {s s' : St} {c : Nat} {g : Bool} (hi : Inv cfg s) (h : step cfg s (.closeBegin c g) = some s') : Inv cfg s' := by
  obtain ⟨h1, h2, h3, h4, h5, h6, h7, h8, h9, h10, h11, h12, h13, h14, h15, h16, h17, h18, h19⟩ := hi
  step_cases h <;> constructor <;> first | assumption | (simp_all; done) | (simp_all <;> omega)

theorem inv_closeTest {cfg : Cfg} {s s' : St} {c : Nat} (hi : Inv cfg s) (h : step cfg s (.closeTest c) = some s') : Inv cfg s' := by
  obtain ⟨h1, h2, h3, h4, h5, h6, h7, h8, h9, h10, h11, h12, h13, h14, h15, h16, h17, h18, h19⟩ := hi
  step_cases h <;> constructor <;> first | assumption | (simp_all; done) | (simp_all <;> omega)

theorem inv_closeSet {cfg : Cfg} {s s' : St} {c : Nat} (hi : Inv cfg s) (h : step cfg s (.closeSet c) = some s') : Inv cfg s' := by
  obtain ⟨h1, h2, h3, h4, h5, h6, h7, h8, h9, h10, h11, h12, h13, h14, h15, h16, h17, h18, h19⟩ := hi
  step_cases h <;> constructor <;> first | assumption | (simp_all; done) | (simp_all <;> omega)

theorem inv_closeWake {cfg : Cfg} {s s' : St} {c : Nat} (hi : Inv cfg s) (h : step cfg s (.closeWake c) = some s') : Inv cfg s' := by
  obtain ⟨h1, h2, h3, h4, h5, h6, h7, h8, h9, h10, h11, h12, h13, h14, h15, h16, h17, h18, h19⟩ := hi
  step_cases h <;> constructor <;> first | assumption | (simp_all; done) | (simp_all <;> omega)

theorem inv_readEnter {cfg : Cfg} {s s' : St}  (hi : Inv cfg s) (h : step cfg s (.readEnter ) = some s') : Inv cfg s' := by
  obtain ⟨h1, h2, h3, h4, h5, h6, h7, h8, h9, h10, h11, h12, h13, h14, h15, h16, h17, h18, h19⟩ := hi
  step_cases h <;> constructor <;> first | assumption | (simp_all; done) | (simp_all <;> omega)

theorem inv_readAck {cfg : Cfg} {s s' : St}  (hi : Inv cfg s) (h : step cfg s (.readAck ) = some s') : Inv cfg s' := by
  obtain ⟨h1, h2, h3, h4, h5, h6, h7, h8, h9, h10, h11, h12, h13, h14, h15, h16, h17, h18, h19⟩ := hi
  step_cases h <;> constructor <;> first | assumption | (simp_all; done) | (simp_all <;> omega)

theorem inv_readFail {cfg : Cfg} {s s' : St}  (hi : Inv cfg s) (h : step cfg s (.readFail ) = some s') : Inv cfg s' := by
  obtain ⟨h1, h2, h3, h4, h5, h6, h7, h8, h9, h10, h11, h12, h13, h14, h15, h16, h17, h18, h19⟩ := hi
  step_cases h <;> constructor <;> first | assumption | (simp_all; done) | (simp_all <;> omega)

theorem inv_readSet {cfg : Cfg} {s s' : St}  (hi : Inv cfg s) (h : step cfg s (.readSet ) = some s') : Inv cfg s' := by
  obtain ⟨h1, h2, h3, h4, h5, h6, h7, h8, h9, h10, h11, h12, h13, h14, h15, h16, h17, h18, h19⟩ := hi
  step_cases h <;> constructor <;> first | assumption | (simp_all; done) | (simp_all <;> omega)

theorem inv_pcBegin {cfg : Cfg} {s s' : St} {p : Nat} (hi : Inv cfg s) (h : step cfg s (.pcBegin p) = some s') : Inv cfg s' := by
  obtain ⟨h1, h2, h3, h4, h5, h6, h7, h8, h9, h10, h11, h12, h13, h14, h15, h16, h17, h18, h19⟩ := hi
  step_cases h <;> constructor <;> first | assumption | (simp_all; done) | (simp_all <;> omega)

theorem inv_pcSet {cfg : Cfg} {s s' : St} {p : Nat} (hi : Inv cfg s) (h : step cfg s (.pcSet p) = some s') : Inv cfg s' := by
  obtain ⟨h1, h2, h3, h4, h5, h6, h7, h8, h9, h10, h11, h12, h13, h14, h15, h16, h17, h18, h19⟩ := hi
  step_cases h <;> constructor <;> first | assumption | (simp_all; done) | (simp_all <;> omega)

theorem inv_pcStop {cfg : Cfg} {s s' : St} {p : Nat} (hi : Inv cfg s) (h : step cfg s (.pcStop p) = some s') : Inv cfg s' := by
  obtain ⟨h1, h2, h3, h4, h5, h6, h7, h8, h9, h10, h11, h12, h13, h14, h15, h16, h17, h18, h19⟩ := hi
  step_cases h <;> constructor <;> first | assumption | (simp_all; done) | (simp_all <;> omega)

theorem inv_send {cfg : Cfg} {s s' : St}  (hi : Inv cfg s) (h : step cfg s (.send ) = some s') : Inv cfg s' := by
  obtain ⟨h1, h2, h3, h4, h5, h6, h7, h8, h9, h10, h11, h12, h13, h14, h15, h16, h17, h18, h19⟩ := hi
  step_cases h <;> constructor <;> first | assumption | (simp_all [sendResult]; done) | skip
  intro e he hne
  simp only [List.mem_append, List.mem_singleton] at he
  rcases he with he | rfl
  · exact h3 e he hne
  · simp only [sendResult]; rw [if_pos hne]

theorem inv_runOnOpen {cfg : Cfg} {s s' : St}  (hi : Inv cfg s) (h : step cfg s (.runOnOpen ) = some s') : Inv cfg s' := by
  obtain ⟨h1, h2, h3, h4, h5, h6, h7, h8, h9, h10, h11, h12, h13, h14, h15, h16, h17, h18, h19⟩ := hi
  by_cases h0 : s.onOpenCalls = 0
  · simp [step, h0] at h
  · have hp : s.rs ≠ .connecting := h13 (by omega)
    step_cases h <;> constructor <;> first | assumption | (simpa using h3) | (simp_all; done) | (intros; simp_all; done)

theorem inv_fireOpen {cfg : Cfg} {s s' : St}  (hi : Inv cfg s) (h : step cfg s (.fireOpen ) = some s') : Inv cfg s' := by
  obtain ⟨h1, h2, h3, h4, h5, h6, h7, h8, h9, h10, h11, h12, h13, h14, h15, h16, h17, h18, h19⟩ := hi
  by_cases h0 : s.openPending = 0
  · simp [step, h0] at h
  · have hp : s.rs ≠ .connecting := h14 (by omega)
    step_cases h <;> constructor <;> first | assumption | (simpa using h3) | (simp_all; done) | (intros; simp_all; done)

theorem inv_fireClose {cfg : Cfg} {s s' : St}  (hi : Inv cfg s) (h : step cfg s (.fireClose ) = some s') : Inv cfg s' := by
  obtain ⟨h1, h2, h3, h4, h5, h6, h7, h8, h9, h10, h11, h12, h13, h14, h15, h16, h17, h18, h19⟩ := hi
  by_cases h0 : s.closePending = 0
  · simp [step, h0] at h
  · have hp : s.rs = .closed := h10 (Or.inl (by omega))
    step_cases h <;> constructor <;> first | assumption | (simpa using h3) | (simp_all; done) | (intros; simp_all; done)

theorem inv_remoteClose {cfg : Cfg} {s s' : St}  (hi : Inv cfg s) (h : step cfg s (.remoteClose ) = some s') : Inv cfg s' := by
  obtain ⟨h1, h2, h3, h4, h5, h6, h7, h8, h9, h10, h11, h12, h13, h14, h15, h16, h17, h18, h19⟩ := hi
  step_cases h <;> constructor <;> first | assumption | (simp_all; done) | (simp_all <;> omega)

theorem inv_remoteAbort {cfg : Cfg} {s s' : St}  (hi : Inv cfg s) (h : step cfg s (.remoteAbort ) = some s') : Inv cfg s' := by
  obtain ⟨h1, h2, h3, h4, h5, h6, h7, h8, h9, h10, h11, h12, h13, h14, h15, h16, h17, h18, h19⟩ := hi
  step_cases h <;> constructor <;> first | assumption | (simp_all; done) | (simp_all <;> omega)

theorem inv_remoteAck {cfg : Cfg} {s s' : St}  (hi : Inv cfg s) (h : step cfg s (.remoteAck ) = some s') : Inv cfg s' := by
  obtain ⟨h1, h2, h3, h4, h5, h6, h7, h8, h9, h10, h11, h12, h13, h14, h15, h16, h17, h18, h19⟩ := hi
  step_cases h <;> constructor <;> first | assumption | (simp_all; done) | (simp_all <;> omega)

theorem inv_regOpen1 {cfg : Cfg} {s s' : St}  (hi : Inv cfg s) (h : step cfg s (.regOpen1 ) = some s') : Inv cfg s' := by
  obtain ⟨h1, h2, h3, h4, h5, h6, h7, h8, h9, h10, h11, h12, h13, h14, h15, h16, h17, h18, h19⟩ := hi
  step_cases h <;> constructor <;> first | assumption | (simp_all; done) | (intros; simp_all; done)
theorem inv_regOpen2 {cfg : Cfg} {s s' : St}  (hi : Inv cfg s) (h : step cfg s (.regOpen2 ) = some s') : Inv cfg s' := by
  obtain ⟨h1, h2, h3, h4, h5, h6, h7, h8, h9, h10, h11, h12, h13, h14, h15, h16, h17, h18, h19⟩ := hi
  step_cases h <;> constructor <;> first | assumption | (simp_all; done) | (intros; simp_all; done)
theorem inv_regClose1 {cfg : Cfg} {s s' : St}  (hi : Inv cfg s) (h : step cfg s (.regClose1 ) = some s') : Inv cfg s' := by
  obtain ⟨h1, h2, h3, h4, h5, h6, h7, h8, h9, h10, h11, h12, h13, h14, h15, h16, h17, h18, h19⟩ := hi
  step_cases h <;> constructor <;> first | assumption | (simp_all; done) | (intros; simp_all; done)
theorem inv_regClose2 {cfg : Cfg} {s s' : St}  (hi : Inv cfg s) (h : step cfg s (.regClose2 ) = some s') : Inv cfg s' := by
  obtain ⟨h1, h2, h3, h4, h5, h6, h7, h8, h9, h10, h11, h12, h13, h14, h15, h16, h17, h18, h19⟩ := hi
  step_cases h <;> constructor <;> first | assumption | (simp_all; done) | (intros; simp_all; done)
theorem inv_step {cfg : Cfg} {s s' : St} {a : Action} (hi : Inv cfg s) (h : step cfg s a = some s') : Inv cfg s' := by
  cases a with
  | open1  => exact inv_open1 hi h
  | openEarly  => exact inv_openEarly hi h
  | open2  => exact inv_open2 hi h
  | open3  => exact inv_open3 hi h
  | open4  => exact inv_open4 hi h
  | open5  => exact inv_open5 hi h
  | closeBegin c g => exact inv_closeBegin hi h
  | closeTest c => exact inv_closeTest hi h
  | closeSet c => exact inv_closeSet hi h
  | closeWake c => exact inv_closeWake hi h
  | readEnter  => exact inv_readEnter hi h
  | readAck  => exact inv_readAck hi h
  | readFail  => exact inv_readFail hi h
  | readSet  => exact inv_readSet hi h
  | pcBegin p => exact inv_pcBegin hi h
  | pcSet p => exact inv_pcSet hi h
  | pcStop p => exact inv_pcStop hi h
  | send  => exact inv_send hi h
  | runOnOpen  => exact inv_runOnOpen hi h
  | fireOpen  => exact inv_fireOpen hi h
  | fireClose  => exact inv_fireClose hi h
  | remoteClose  => exact inv_remoteClose hi h
  | remoteAbort  => exact inv_remoteAbort hi h
  | remoteAck  => exact inv_remoteAck hi h
  | regOpen1 => exact inv_regOpen1 hi h
  | regOpen2 => exact inv_regOpen2 hi h
  | regClose1 => exact inv_regClose1 hi h
  | regClose2 => exact inv_regClose2 hi h


theorem inv_of_reachable {cfg : Cfg} {nc np : Nat} {s : St} (h : Reachable cfg nc np s) : Inv cfg s := by
  induction h with
  | init => exact inv_init cfg nc np
  | step a _ hs ih => exact inv_step ih hs

/-! ### runs -/

theorem reachable_run {cfg : Cfg} {nc np : Nat} {s s' : St} (h : Reachable cfg nc np s) (as : List Action)
    (hr : runActions cfg s as = some s') : Reachable cfg nc np s' := by
  induction as generalizing s with
  | nil => simp [runActions] at hr; subst hr; exact h
  | cons a as ih =>
    simp only [runActions] at hr
    cases hs : step cfg s a with
    | none => rw [hs] at hr; simp at hr
    | some s1 => rw [hs] at hr; exact ih (Reachable.step a h hs) hr

theorem run_rank_le {cfg : Cfg} {s s' : St} (as : List Action) (hr : runActions cfg s as = some s') :
    s.rs.rank ≤ s'.rs.rank := by
  induction as generalizing s with
  | nil => simp [runActions] at hr; subst hr; exact Nat.le_refl _
  | cons a as ih =>
    simp only [runActions] at hr
    cases hs : step cfg s a with
    | none => rw [hs] at hr; simp at hr
    | some s1 => rw [hs] at hr; exact Nat.le_trans (step_rank_le hs) (ih hr)

end WebrtcVerif.DcState
