import WebrtcVerif.Model.Ops
import WebrtcVerif.Proofs.OpsLemmas
/-!
  Termination of the queue side of the operations-queue transition system: a measure `mu` that every
  action of a worker (`operations.start`) and every second half of an onNegotiationNeeded call strictly
  decreases.  The environment (enqueuers, `Done`/`GracefulClose` callers, raw flag setters, new
  onNegotiationNeeded calls) can of course raise it.

  Two auxiliary invariants are needed (`TermInv`): a freshly spawned worker finds an item (the one whose
  enqueue / hand-off spawned it: nobody else pops), likewise a worker whose callback found the queue busy
  still has that item behind it; and a worker that loaded `true` from the flag still sees it set when it
  clears it (nobody else clears).
-/
namespace WebrtcVerif.Ops

/-! ### two live workers contradict `liveL ≤ 1` -/

theorem liveL_two {l : List WPc} {w w' : Nat} {p p' : WPc} (hw : l[w]? = some p) (hw' : l[w']? = some p')
    (hl : p.live = true) (hl' : p'.live = true) (hne : w ≠ w') : 2 ≤ liveL l := by
  induction l generalizing w w' with
  | nil => simp at hw
  | cons x l ih =>
    rw [liveL_cons]
    cases w with
    | zero =>
      cases w' with
      | zero => exact absurd rfl hne
      | succ w' =>
        simp at hw hw'
        subst hw
        have := liveL_pos_of_getElem? hw' hl'
        simp [hl]; omega
    | succ w =>
      cases w' with
      | zero =>
        simp at hw hw'
        subst hw'
        have := liveL_pos_of_getElem? hw hl
        simp [hl']; omega
      | succ w' =>
        simp at hw hw'
        have := ih hw hw' (by omega)
        omega

theorem OpsInv.same_worker {s : St} (h : OpsInv s) {w w' : Nat} {p p' : WPc}
    (hw : s.workers[w]? = some p) (hw' : s.workers[w']? = some p')
    (hl : p.live = true) (hl' : p'.live = true) : w = w' := by
  by_cases hne : w = w'
  · exact hne
  · have := liveL_two hw hw' hl hl' hne
    have := h.live_le
    omega

theorem getElem?_set_split {α} {l : List α} {w j : Nat} {y z : α}
    (h : (l.set w y)[j]? = some z) : (j = w ∧ z = y) ∨ (j ≠ w ∧ l[j]? = some z) := by
  by_cases hj : j = w
  · subst hj
    rw [List.getElem?_set] at h
    simp at h
    exact Or.inl ⟨rfl, h.2.symm⟩
  · rw [List.getElem?_set_ne (fun e => hj e.symm)] at h
    exact Or.inr ⟨hj, h⟩

/-! ### the auxiliary invariant -/

/-- a worker pc that implies "an item is queued behind me" -/
def WPc.needsQ : WPc → Bool
  | .start => true
  | .cb false => true
  | _ => false

theorem WPc.live_of_needsQ {pc : WPc} (h : pc.needsQ = true) : pc.live = true := by
  cases pc with
  | cb e => rfl
  | start => rfl
  | _ => simp [WPc.needsQ] at h

structure TermInv (s : St) : Prop where
  hasItem : ∀ (w : Nat) (pc : WPc), s.workers[w]? = some pc → pc.needsQ = true → s.queue ≠ []
  loadedFlag : ∀ w : Nat, s.workers[w]? = some WPc.loaded → s.flag = true

theorem termInv_init (nc nd nn : Nat) : TermInv (init nc nd nn) := by
  constructor <;> simp [init]

/-- transport: the queue did not become empty; every worker in a `needsQ` / `loaded` pc was already there
    (or the new state satisfies the obligation outright) -/
theorem TermInv.frame {s s' : St} (h : TermInv s) (hq : s.queue ≠ [] → s'.queue ≠ [])
    (hf : s.flag = true → s'.flag = true)
    (hw : ∀ (w : Nat) (pc : WPc), s'.workers[w]? = some pc → pc.needsQ = true →
      s.workers[w]? = some pc ∨ s'.queue ≠ [])
    (hl : ∀ w : Nat, s'.workers[w]? = some WPc.loaded → s.workers[w]? = some WPc.loaded ∨ s'.flag = true) :
    TermInv s' := by
  constructor
  · intro w pc hw' hn
    rcases hw w pc hw' hn with h1 | h1
    · exact hq (h.hasItem w pc h1 hn)
    · exact h1
  · intro w hw'
    rcases hl w hw' with h1 | h1
    · exact hf (h.loadedFlag w h1)
    · exact h1

theorem TermInv.congr {s s' : St} (h : TermInv s) (hq : s'.queue = s.queue) (hf : s'.flag = s.flag)
    (hw : s'.workers = s.workers) : TermInv s' := by
  constructor
  · intro w pc hw' hn
    rw [hq]
    rw [hw] at hw'
    exact h.hasItem w pc hw' hn
  · intro w hw'
    rw [hf]
    rw [hw] at hw'
    exact h.loadedFlag w hw'

/-- worker `w` moves to a pc that is neither `needsQ` nor `loaded`; queue and flag only grow -/
theorem TermInv.worker_set {s s' : St} (h : TermInv s) {w : Nat} (pc' : WPc)
    (hq : s.queue ≠ [] → s'.queue ≠ []) (hf : s.flag = true → s'.flag = true)
    (hw : s'.workers = s.workers.set w pc') (hn : pc'.needsQ = false) (hl : pc' ≠ WPc.loaded) :
    TermInv s' := by
  refine h.frame hq hf ?_ ?_
  · intro j pc hj hnq
    rw [hw] at hj
    rcases getElem?_set_split hj with ⟨_, e⟩ | ⟨_, e⟩
    · subst e
      rw [hn] at hnq
      cases hnq
    · exact Or.inl e
  · intro j hj
    rw [hw] at hj
    rcases getElem?_set_split hj with ⟨_, e⟩ | ⟨_, e⟩
    · exact absurd e.symm hl
    · exact Or.inl e

theorem termInv_tryEnqueue {s : St} (h : TermInv s) (it : Item) : TermInv (tryEnqueue s it).1 := by
  unfold tryEnqueue
  split
  · exact h
  · dsimp only
    split
    · refine h.frame (by intro _; simp) id ?_ ?_
      · intro w pc _ _
        right
        simp
      · intro w hw
        exact Or.inl hw
    · refine h.frame (by intro _; simp) id ?_ ?_
      · intro w pc _ _
        right
        simp
      · intro w hw
        left
        have hw' : (s.workers ++ [WPc.start])[w]? = some WPc.loaded := hw
        rcases Nat.lt_or_ge w s.workers.length with hlt | hge
        · rw [List.getElem?_append_left hlt] at hw'
          exact hw'
        · rw [List.getElem?_append_right hge] at hw'
          have : ([WPc.start] : List WPc)[w - s.workers.length]? = some WPc.loaded := hw'
          cases hk : w - s.workers.length with
          | zero => rw [hk] at this; simp at this
          | succ k => rw [hk] at this; simp at this

theorem termInv_enqCheck {s : St} (h : TermInv s) : TermInv (enqCheck s) := by
  unfold enqCheck
  apply termInv_tryEnqueue
  exact h.congr rfl rfl rfl

theorem termInv_negApply {s : St} (h : TermInv s) (e : Bool) : TermInv (negApply s e) := by
  unfold negApply
  split
  · exact termInv_enqCheck h
  · exact h.frame id (fun _ => rfl) (fun w pc hw _ => Or.inl hw) (fun w hw => Or.inl hw)

theorem termInv_step {m : NegMode} {s s' : St} {a : Action} (hi : OpsInv s) (h : TermInv s)
    (hs : step m s a = some s') : TermInv s' := by
  cases a with
  | enqueue it =>
    simp only [step] at hs
    split at hs
    · cases hs
    · cases hs
      exact termInv_tryEnqueue h it
  | doneBegin d =>
    simp only [step] at hs
    split at hs
    · split at hs
      · cases hs
      · cases hs
        exact (termInv_tryEnqueue h (.waiter d)).congr rfl rfl rfl
    · cases hs
  | doneWake d =>
    simp only [step] at hs
    split at hs
    · split at hs
      · cases hs
        exact h.congr rfl rfl rfl
      · cases hs
    · cases hs
  | doneDrainWake d =>
    simp only [step] at hs
    split at hs
    · split at hs
      · cases hs
        exact h.congr rfl rfl rfl
      · cases hs
    · cases hs
  | doneRecheck d =>
    simp only [step] at hs
    split at hs
    · split at hs
      · cases hs
        exact h.congr rfl rfl rfl
      · cases hs
        exact h.congr rfl rfl rfl
    · cases hs
  | gcBegin c =>
    simp only [step] at hs
    split at hs
    · split at hs
      · cases hs
        exact h.congr rfl rfl rfl
      · split at hs
        · cases hs
          exact h.congr rfl rfl rfl
        · cases hs
          exact h.congr rfl rfl rfl
    · cases hs
  | gcWake c =>
    simp only [step] at hs
    split at hs
    · split at hs
      · cases hs
        exact h.congr rfl rfl rfl
      · cases hs
    · cases hs
  | gcRecheck c =>
    simp only [step] at hs
    split at hs
    · split at hs
      · cases hs
        exact h.congr rfl rfl rfl
      · cases hs
        exact h.congr rfl rfl rfl
    · cases hs
  | pop w =>
    have key : ∀ pc, s.workers[w]? = some pc → pc.live = true →
        TermInv { (popQueue s).1 with
          workers := setAt (popQueue s).1.workers w (.popped (popQueue s).2) } := by
      intro pc hw hlive
      unfold popQueue
      split
      · exact h.worker_set (.popped none) id id rfl rfl (by simp)
      · -- the queue shrinks: no OTHER worker can be in a needsQ pc (it would be a second live worker)
        constructor
        · intro j pc' hj hnq
          rcases getElem?_set_split hj with ⟨_, e⟩ | ⟨hne, e⟩
          · subst e
            simp [WPc.needsQ] at hnq
          · exact absurd (hi.same_worker hw e hlive (WPc.live_of_needsQ hnq)) (fun e' => hne e'.symm)
        · intro j hj
          rcases getElem?_set_split hj with ⟨_, e⟩ | ⟨_, e⟩
          · cases e
          · exact h.loadedFlag j e
    simp only [step] at hs
    split at hs
    · rename_i hw
      cases hs
      exact key _ hw rfl
    · rename_i it hw
      cases hs
      exact key _ hw rfl
    · cases hs
  | exec w =>
    simp only [step] at hs
    split at hs
    · cases hs
      exact h.worker_set (.running _) id id rfl rfl (by simp)
    · cases hs
  | afterLoop w =>
    simp only [step] at hs
    split at hs
    · rename_i hw
      cases hs
      refine h.frame id id ?_ ?_
      · intro j pc hj hnq
        rcases getElem?_set_split hj with ⟨_, e⟩ | ⟨_, e⟩
        · subst e
          split at hnq <;> simp [WPc.needsQ] at hnq
        · exact Or.inl e
      · intro j hj
        rcases getElem?_set_split hj with ⟨_, e⟩ | ⟨_, e⟩
        · right
          by_cases hf : s.flag = true
          · exact hf
          · simp [hf] at e
        · exact Or.inl e
    · cases hs
  | clearFlag w =>
    simp only [step] at hs
    split at hs
    · rename_i hw
      cases hs
      constructor
      · intro j pc hj hnq
        rcases getElem?_set_split hj with ⟨_, e⟩ | ⟨_, e⟩
        · subst e
          simp [WPc.needsQ] at hnq
        · exact h.hasItem j pc e hnq
      · intro j hj
        rcases getElem?_set_split hj with ⟨_, e⟩ | ⟨hne, e⟩
        · cases e
        · exact absurd (hi.same_worker hw e rfl rfl) (fun e' => hne e'.symm)
    · cases hs
  | cbBegin w =>
    simp only [step] at hs
    split at hs
    · rename_i hw
      cases m with
      | none =>
        cases hs
        exact h.worker_set .defer_ id id rfl rfl (by simp)
      | enqueue =>
        cases hs
        have h1 : TermInv { s with negCalls := s.negCalls + 1 } := h.congr rfl rfl rfl
        exact (termInv_enqCheck h1).worker_set .defer_ id id rfl rfl (by simp)
      | rearm =>
        cases hs
        refine h.frame id id ?_ ?_
        · intro j pc hj hnq
          rcases getElem?_set_split hj with ⟨_, e⟩ | ⟨_, e⟩
          · subst e
            right
            cases hq : s.queue with
            | nil => simp [hq, WPc.needsQ] at hnq
            | cons x xs => simp
          · exact Or.inl e
        · intro j hj
          rcases getElem?_set_split hj with ⟨_, e⟩ | ⟨_, e⟩
          · cases e
          · exact Or.inl e
    · cases hs
  | cbAct w =>
    simp only [step] at hs
    split at hs
    · rename_i e hw
      cases hs
      exact (termInv_negApply h e).worker_set .defer_ id id rfl rfl (by simp)
    · cases hs
  | negTest n =>
    simp only [step] at hs
    split at hs
    · cases hs
      exact h.congr rfl rfl rfl
    · cases hs
  | negAct n =>
    simp only [step] at hs
    split at hs
    · rename_i e hn
      cases hs
      exact (termInv_negApply h e).congr rfl rfl rfl
    · cases hs
  | deferred w =>
    simp only [step] at hs
    split at hs
    · rename_i hw
      split at hs
      · cases hs
      · split at hs
        · cases hs
          exact h.worker_set .fin id id rfl rfl (by simp)
        · rename_i hq
          cases hs
          have hq' : s.queue ≠ [] := by
            intro e
            rw [e] at hq
            exact hq rfl
          refine h.frame id id ?_ ?_
          · intro j pc _ _
            exact Or.inr hq'
          · intro j hj
            left
            have hj' : (s.workers.set w .fin ++ [WPc.start])[j]? = some WPc.loaded := hj
            rcases Nat.lt_or_ge j (s.workers.set w .fin).length with hlt | hge
            · rw [List.getElem?_append_left hlt] at hj'
              rcases getElem?_set_split hj' with ⟨_, e⟩ | ⟨_, e⟩
              · cases e
              · exact e
            · rw [List.getElem?_append_right hge] at hj'
              cases hk : j - (s.workers.set w .fin).length with
              | zero => rw [hk] at hj'; simp at hj'
              | succ k => rw [hk] at hj'; simp at hj'
    · cases hs
  | setFlag =>
    simp only [step] at hs
    cases hs
    exact h.frame id (fun _ => rfl) (fun w pc hw _ => Or.inl hw) (fun w hw => Or.inl hw)

theorem termInv_of_reachable {m : NegMode} {nc nd nn : Nat} {s : St} (h : Reachable m nc nd nn s) :
    TermInv s := by
  induction h with
  | init => exact termInv_init nc nd nn
  | step a hr hs ih => exact termInv_step (opsInv_of_reachable hr) ih hs

theorem tryEnqueue_neg_frame' (s : St) (it : Item) : (tryEnqueue s it).1.callers = s.callers := by
  unfold tryEnqueue
  split
  · rfl
  · dsimp only
    split <;> rfl

/-! ### the measure -/

def WPc.rank : WPc → Nat
  | .fin => 0
  | .start => 1
  | .defer_ => 2
  | .loaded => 6
  | .popped none => 7
  | .running _ => 8
  | .popped (some _) => 9
  | .cb false => 13
  | .cb true => 14
  | .cleared => 15
  | .cbDone => 0

def NPc.rank : NPc → Nat
  | .idle => 0
  | .tested true => 12
  | .tested false => 11
  | .returned => 0

def rankSum (l : List WPc) : Nat := (l.map WPc.rank).sum
def crankSum (l : List NPc) : Nat := (l.map NPc.rank).sum

/-- 10 for a set flag (it pays for the callback's check), 10 per queued item (it pays for a whole worker
    pass), plus what every worker / API goroutine still has to do by itself -/
def mu (s : St) : Nat :=
  10 * (if s.flag = true then 1 else 0) + 10 * s.queue.length + rankSum s.workers + crankSum s.callers

theorem rankSum_set {l : List WPc} {w : Nat} {pc : WPc} (pc' : WPc) (hw : l[w]? = some pc) :
    rankSum (l.set w pc') + pc.rank = rankSum l + pc'.rank := by
  induction l generalizing w with
  | nil => simp at hw
  | cons p l ih =>
    cases w with
    | zero =>
      simp at hw
      subst hw
      simp [rankSum]
      omega
    | succ w =>
      simp at hw
      have := ih hw
      simp [rankSum] at this ⊢
      omega

theorem crankSum_set {l : List NPc} {n : Nat} {pc : NPc} (pc' : NPc) (hn : l[n]? = some pc) :
    crankSum (l.set n pc') + pc.rank = crankSum l + pc'.rank := by
  induction l generalizing n with
  | nil => simp at hn
  | cons p l ih =>
    cases n with
    | zero =>
      simp at hn
      subst hn
      simp [crankSum]
      omega
    | succ n =>
      simp at hn
      have := ih hn
      simp [crankSum] at this ⊢
      omega

theorem rankSum_snoc_start (l : List WPc) : rankSum (l ++ [.start]) = rankSum l + 1 := by
  simp [rankSum, WPc.rank]

/-- `tryEnqueue` adds at most one item and one fresh worker -/
theorem mu_tryEnqueue_le (s : St) (it : Item) : mu (tryEnqueue s it).1 ≤ mu s + 11 := by
  unfold tryEnqueue
  split
  · simp
  · dsimp only
    split
    · simp [mu]; omega
    · simp [mu, rankSum_snoc_start]; omega

theorem mu_enqCheck_le (s : St) : mu (enqCheck s) ≤ mu s + 11 := by
  unfold enqCheck
  exact mu_tryEnqueue_le _ _

theorem mu_negApply_le (s : St) (e : Bool) : mu (negApply s e) ≤ mu s + (if e = true then 11 else 10) := by
  cases e with
  | true =>
    simp [negApply]
    exact mu_enqCheck_le s
  | false =>
    simp [negApply, mu]
    split <;> omega

theorem mu_set_worker (s : St) {w : Nat} {pc : WPc} (pc' : WPc) (hw : s.workers[w]? = some pc) :
    mu { s with workers := s.workers.set w pc' } + pc.rank = mu s + pc'.rank := by
  have := rankSum_set pc' hw
  simp only [mu]
  omega

theorem mu_step_lt {m : NegMode} {s s' : St} {a : Action} (ht : TermInv s)
    (hs : step m s a = some s') (ha : sysAct a = true) : mu s' < mu s := by
  cases a with
  | pop w =>
    have key : ∀ pc, s.workers[w]? = some pc → (pc = .start ∨ ∃ it, pc = .running it) →
        mu { (popQueue s).1 with
          workers := setAt (popQueue s).1.workers w (.popped (popQueue s).2) } < mu s := by
      intro pc hw hpc
      have hr := rankSum_set (.popped (popQueue s).2) hw
      unfold popQueue at hr ⊢
      split
      · rename_i hq
        rw [hq] at hr
        rcases hpc with e | ⟨it, e⟩
        · subst e
          exact absurd hq (ht.hasItem w _ hw rfl)
        · subst e
          simp only [mu, setAt]
          simp [WPc.rank] at hr
          omega
      · rename_i it rest hq
        rw [hq] at hr
        simp only [mu, setAt, hq, List.length_cons]
        rcases hpc with e | ⟨it', e⟩
        · subst e
          simp [WPc.rank] at hr
          omega
        · subst e
          simp [WPc.rank] at hr
          omega
    simp only [step] at hs
    split at hs
    · rename_i hw
      cases hs
      exact key _ hw (Or.inl rfl)
    · rename_i it hw
      cases hs
      exact key _ hw (Or.inr ⟨it, rfl⟩)
    · cases hs
  | exec w =>
    simp only [step] at hs
    split at hs
    · rename_i it hw
      cases hs
      have hr := rankSum_set (.running it) hw
      simp only [mu, setAt]
      simp [WPc.rank] at hr
      omega
    · cases hs
  | afterLoop w =>
    simp only [step] at hs
    split at hs
    · rename_i hw
      cases hs
      have hr := rankSum_set (if s.flag = true then WPc.loaded else WPc.defer_) hw
      simp only [mu, setAt]
      by_cases hf : s.flag = true
      · simp [hf, WPc.rank] at hr ⊢
        omega
      · simp [hf, WPc.rank] at hr ⊢
        omega
    · cases hs
  | clearFlag w =>
    simp only [step] at hs
    split at hs
    · rename_i hw
      cases hs
      have hr := rankSum_set .cleared hw
      have hf := ht.loadedFlag w hw
      simp only [mu, setAt, hf]
      simp [WPc.rank] at hr
      simp
      omega
    · cases hs
  | cbBegin w =>
    simp only [step] at hs
    split at hs
    · rename_i hw
      cases m with
      | none =>
        cases hs
        have hr := rankSum_set .defer_ hw
        simp only [mu, setAt]
        simp [WPc.rank] at hr
        omega
      | enqueue =>
        cases hs
        have hw2 : (enqCheck { s with negCalls := s.negCalls + 1 }).workers[w]? = some WPc.cleared :=
          enqCheck_workers_get (s := { s with negCalls := s.negCalls + 1 }) hw
        have h1 := mu_set_worker (enqCheck { s with negCalls := s.negCalls + 1 }) .defer_ hw2
        have h2 := mu_enqCheck_le { s with negCalls := s.negCalls + 1 }
        have h3 : mu { s with negCalls := s.negCalls + 1 } = mu s := rfl
        simp [WPc.rank] at h1
        simp only [setAt]
        omega
      | rearm =>
        cases hs
        have hr := rankSum_set (.cb s.queue.isEmpty) hw
        simp only [mu, setAt]
        cases hq : s.queue.isEmpty <;> simp [WPc.rank, hq] at hr <;> omega
    · cases hs
  | cbAct w =>
    simp only [step] at hs
    split at hs
    · rename_i e hw
      cases hs
      have hw2 := negApply_workers_get e hw
      have h1 := mu_set_worker (negApply s e) .defer_ hw2
      have h2 := mu_negApply_le s e
      simp only [setAt]
      cases e <;> simp [WPc.rank] at h1 h2 <;> omega
    · cases hs
  | negAct n =>
    simp only [step] at hs
    split at hs
    · rename_i e hn
      cases hs
      have h2 := mu_negApply_le s e
      have hc : (negApply s e).callers = s.callers := by
        cases e with
        | true =>
          simp only [negApply, enqCheck]
          exact (tryEnqueue_neg_frame' _ _)
        | false => simp [negApply]
      have hr := crankSum_set .returned (hc ▸ hn : (negApply s e).callers[n]? = some (.tested e))
      have hmu : mu { negApply s e with callers := setAt (negApply s e).callers n .returned } + (NPc.tested e).rank
          = mu (negApply s e) + NPc.rank .returned := by
        simp only [mu, setAt]
        omega
      cases e <;> simp [NPc.rank] at hmu h2 <;> omega
    · cases hs
  | deferred w =>
    simp only [step] at hs
    split at hs
    · rename_i hw
      split at hs
      · cases hs
      · split at hs
        · cases hs
          have hr := rankSum_set .fin hw
          simp only [mu, setAt]
          simp [WPc.rank] at hr
          omega
        · cases hs
          have hr := rankSum_set .fin hw
          simp only [mu, setAt, rankSum_snoc_start]
          simp [WPc.rank] at hr
          omega
    · cases hs
  | enqueue _ => cases ha
  | doneBegin _ => cases ha
  | doneWake _ => cases ha
  | doneDrainWake _ => cases ha
  | doneRecheck _ => cases ha
  | gcBegin _ => cases ha
  | gcWake _ => cases ha
  | gcRecheck _ => cases ha
  | negTest _ => cases ha
  | setFlag => cases ha

theorem reachable_run {m : NegMode} {nc nd nn : Nat} {s s' : St} (h : Reachable m nc nd nn s)
    (acts : List Action) (hr : runActions m s acts = some s') : Reachable m nc nd nn s' := by
  induction acts generalizing s with
  | nil => simp [runActions] at hr; subst hr; exact h
  | cons a as ih =>
    simp only [runActions] at hr
    cases hst : step m s a with
    | none => rw [hst] at hr; simp at hr
    | some s1 =>
      rw [hst] at hr
      exact ih (Reachable.step a h hst) hr

/-- a run that consists of the queue's own actions only is at most `mu s` steps long -/
theorem mu_run {m : NegMode} {nc nd nn : Nat} {s s' : St} (h : Reachable m nc nd nn s)
    (acts : List Action) (hall : ∀ a ∈ acts, sysAct a = true) (hr : runActions m s acts = some s') :
    acts.length + mu s' ≤ mu s := by
  induction acts generalizing s with
  | nil => simp [runActions] at hr; subst hr; simp
  | cons a as ih =>
    simp only [runActions] at hr
    cases hst : step m s a with
    | none => rw [hst] at hr; simp at hr
    | some s1 =>
      rw [hst] at hr
      have h1 := mu_step_lt (termInv_of_reachable h) hst (hall a (by simp))
      have h2 := ih (Reachable.step a h hst) (fun b hb => hall b (by simp [hb])) hr
      simp only [List.length_cons]
      omega

theorem sysAct_of_workerActions {w : Nat} {a : Action} (h : a ∈ workerActions w) : sysAct a = true := by
  simp [workerActions] at h
  rcases h with h | h | h | h | h | h | h <;> subst h <;> rfl

end WebrtcVerif.Ops
