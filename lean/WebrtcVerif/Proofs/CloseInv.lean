import WebrtcVerif.Proofs.CloseGlobal
/-!
  `CloseInv` holds in every reachable state of the close() transition system; progress (no deadlock) and
  the termination measure.
-/
namespace WebrtcVerif.Close
open WebrtcVerif.ConnState

theorem COk.repack {s s' : St} {c : Nat} {cl : Closer} (h : COk s c cl)
    (e1 : s'.isClosed = s.isClosed) (e2 : s'.graceful = s.graceful) (e3 : s'.mainIdx = s.mainIdx)
    (e4 : s'.gOwner = s.gOwner) (e5 : s'.closeDone = s.closeDone) (e6 : s'.bodyLog = s.bodyLog)
    (e7 : s'.interceptorCloses = s.interceptorCloses) (e8 : s'.iceStops = s.iceStops)
    (e9 : s'.gracefulDone = s.gracefulDone) (e10 : s'.opsCloses = s.opsCloses)
    (e11 : s'.loops = s.loops) : COk s' c cl := by
  obtain ⟨h1, h2, h3, h4, h5, h6, h7, h8, h9, h10, h11, h12, h13, h14⟩ := h
  constructor <;> simp_all

theorem GInv.withClosers {s : St} (h : GInv s) (X : List Closer) : GInv { s with closers := X } :=
  ⟨h.retest, h.noPanic, h.mainSome, h.ownerSome, h.gracefulClosed, h.noMain, h.noOwner, h.iceG, h.sig, h.media,
   h.stored, h.logClosed, h.notifiedClosed, h.notifiedFinal⟩

theorem GInv.withUpdaters {s : St} (h : GInv s) (X : List UPc) : GInv { s with updaters := X } :=
  ⟨h.retest, h.noPanic, h.mainSome, h.ownerSome, h.gracefulClosed, h.noMain, h.noOwner, h.iceG, h.sig, h.media,
   h.stored, h.logClosed, h.notifiedClosed, h.notifiedFinal⟩

theorem cstepFn_isClosed {s s1 : St} {c : Nat} {cl cl' : Closer} (h : cstepFn s c cl = some (s1, cl')) :
    s.isClosed = true → s1.isClosed = true := by
  obtain ⟨g, role, pc⟩ := cl
  cases pc <;> simp [cstepFn] at h <;>
    first
    | (obtain ⟨rfl, rfl⟩ := h; simp [gracefulOps, storeSection])
    | (obtain ⟨_, rfl, rfl⟩ := h; simp)
    | (cases role <;> simp at h <;> obtain ⟨rfl, rfl⟩ := h <;> simp)

theorem closeInv_init (gs : List Bool) (nu : Nat) (c0 : Pc) (ls : List LPc) : CloseInv (init gs nu c0 ls) := by
  refine ⟨?_, ?_, ?_, ?_, ?_⟩
  · constructor <;> simp [init, closedFinal]
  · intro c cl hcl
    simp only [init, List.getElem?_map] at hcl
    cases hg : gs[c]? with
    | none => simp [hg] at hcl
    | some g =>
      simp [hg] at hcl; subst hcl
      constructor <;> simp [allowed, isOwner, init]
  · intro m hm; simp [init] at hm
  · intro o ho; simp [init] at ho
  · intro u hu
    simp only [init] at hu
    rw [List.getElem?_replicate] at hu
    split at hu <;> simp at hu

theorem closeInv_cstep {s s' : St} {c : Nat} (hi : CloseInv s) (h : step s (.cstep c) = some s') : CloseInv s' := by
  simp only [step] at h
  cases hcl : s.closers[c]? with
  | none => simp [hcl] at h
  | some cl =>
    cases hfn : cstepFn s c cl with
    | none => simp [hcl, hfn] at h
    | some r =>
      obtain ⟨s1, cl'⟩ := r
      simp only [hcl, hfn, Option.some.injEq] at h
      subst h
      have hok := hi.each c cl hcl
      have hcs := (cstepFn_closers hfn).1
      have hlt : c < s.closers.length := getElem?_lt hcl
      refine ⟨(cstep_ginv hi.g hok hfn).withClosers _, ?_, ?_, ?_, ?_⟩
      · intro c2 cl2 h2
        simp only at h2
        rw [hcs] at h2
        by_cases hc2 : c2 = c
        · subst hc2
          rw [List.getElem?_set_self hlt] at h2
          cases h2
          by_cases hidle : cl.pc = .idle
          · exact (cstep_self_idle hi.g.mainSome hi.g.ownerSome hi.g.gracefulClosed hi.g.noMain hi.g.noOwner
              hidle hfn).withClosers _
          · exact (cstep_self_run hidle hok hfn).withClosers _
        · rw [List.getElem?_set_ne (fun e => hc2 e.symm)] at h2
          have hok2 := hi.each c2 cl2 h2
          by_cases hidle : cl.pc = .idle
          · exact (cstep_other_idle hi.g.mainSome hi.g.ownerSome hidle hfn hok2).withClosers _
          · exact (cstep_other_run hidle hok hfn hc2 hok2).withClosers _
      · intro m hm
        simp only at hm ⊢
        rw [hcs]
        rcases cstep_mainIdx hok hfn with ⟨hmi, hrole⟩ | ⟨hmi, hrole⟩
        · rw [hmi] at hm; cases hm
          exact ⟨cl', List.getElem?_set_self hlt, hrole⟩
        · rw [hmi] at hm
          obtain ⟨clm, hclm, hrm⟩ := hi.mainAt m hm
          by_cases hmc : m = c
          · subst hmc
            rw [hcl] at hclm; cases hclm
            exact ⟨cl', List.getElem?_set_self hlt, hrole hrm⟩
          · exact ⟨clm, by rw [List.getElem?_set_ne (fun e => hmc e.symm)]; exact hclm, hrm⟩
      · intro o ho
        simp only at ho ⊢
        rw [hcs]
        rcases cstep_gOwner hok hfn with ⟨hoi, hown⟩ | ⟨hoi, hown⟩
        · rw [hoi] at ho; cases ho
          exact ⟨cl', List.getElem?_set_self hlt, hown⟩
        · rw [hoi] at ho
          obtain ⟨clo, hclo, hro⟩ := hi.ownerAt o ho
          by_cases hoc : o = c
          · subst hoc
            rw [hcl] at hclo; cases hclo
            exact ⟨cl', List.getElem?_set_self hlt, hown hro⟩
          · exact ⟨clo, by rw [List.getElem?_set_ne (fun e => hoc e.symm)]; exact hclo, hro⟩
      · intro u hu
        simp only at hu ⊢
        rw [(cstepFn_closers hfn).2.1] at hu
        exact cstepFn_isClosed hfn (hi.upd u hu)

theorem allExited_getElem {ls : List LPc} (h : allExited ls = true) {l : Nat} {x : LPc} (hx : ls[l]? = some x) :
    x = .exited := by
  simp only [allExited, List.all_eq_true] at h
  have := h x (List.mem_of_getElem? hx)
  simpa using this

/-- a read-loop action: the flags are untouched, and a caller that has joined the loops stays joined -/
theorem closeInv_loop {s : St} (hi : CloseInv s) {l : Nat} {x y : LPc} (hx : s.loops[l]? = some x) (hne : x ≠ .exited) :
    CloseInv { s with loops := s.loops.set l y } := by
  refine ⟨⟨hi.g.retest, hi.g.noPanic, hi.g.mainSome, hi.g.ownerSome, hi.g.gracefulClosed, hi.g.noMain,
      hi.g.noOwner, hi.g.iceG, hi.g.sig, hi.g.media, hi.g.stored, hi.g.logClosed, hi.g.notifiedClosed,
      hi.g.notifiedFinal⟩, ?_, hi.mainAt, hi.ownerAt, hi.upd⟩
  intro c cl hcl
  obtain ⟨h1, h2, h3, h4, h5, h6, h7, h8, h9, h10, h11, h12, h13, h14⟩ := hi.each c cl hcl
  exact ⟨h1, h2, h3, h4, h5, h6, h7, h8, h9, h10, h11, h12, h13,
    fun ho hp => absurd (allExited_getElem (h14 ho hp) hx) hne⟩

theorem closeInv_step {s s' : St} {a : Action} (hi : CloseInv s) (h : step s a = some s') : CloseInv s' := by
  cases a with
  | cstep c => exact closeInv_cstep hi h
  | uCompute u ice dtls =>
    simp only [step] at h
    split at h
    · rename_i hu
      cases h
      refine ⟨hi.g.withUpdaters _, fun c cl hcl => (hi.each c cl hcl).repack rfl rfl rfl rfl rfl rfl rfl rfl rfl rfl rfl,
        hi.mainAt, hi.ownerAt, ?_⟩
      intro u2 hu2
      simp only at hu2 ⊢
      by_cases hcu : u2 = u
      · subst hcu
        rw [List.getElem?_set_self (getElem?_lt hu)] at hu2
        simp only [Option.some.injEq, UPc.computed.injEq] at hu2
        exact aggregate_eq_closed hu2
      · rw [List.getElem?_set_ne (fun e => hcu e.symm)] at hu2
        exact hi.upd u2 hu2
    · cases h
  | uStore u =>
    simp only [step] at h
    split at h
    · rename_i x hu
      cases h
      have hso := store_ok x hi.g.retest (fun hx => hi.upd u (by rw [hu, hx])) hi.g.notifiedClosed hi.g.notifiedFinal
      refine ⟨?_, fun c cl hcl => (hi.each c cl hcl).repack rfl rfl rfl rfl rfl rfl rfl rfl rfl rfl rfl,
        hi.mainAt, hi.ownerAt, ?_⟩
      · exact ⟨hi.g.retest, hi.g.noPanic, hi.g.mainSome, hi.g.ownerSome, hi.g.gracefulClosed, hi.g.noMain,
          hi.g.noOwner, hi.g.iceG, hi.g.sig, hi.g.media,
          fun hst => hso.2.2 (hi.g.logClosed (by intro e; rw [show (storeSection s x).bodyLog = s.bodyLog from rfl, e] at hst; simp at hst)),
          hi.g.logClosed, hso.1, hso.2.1⟩
      · intro u2 hu2
        simp only at hu2 ⊢
        by_cases hcu : u2 = u
        · subst hcu
          rw [show (storeSection s x).updaters = s.updaters from rfl,
            List.getElem?_set_self (getElem?_lt hu)] at hu2
          cases hu2
        · rw [show (storeSection s x).updaters = s.updaters from rfl,
            List.getElem?_set_ne (fun e => hcu e.symm)] at hu2
          exact hi.upd u2 hu2
    · cases h
  | api a env =>
    simp only [step, Option.some.injEq] at h
    subst h
    exact ⟨⟨hi.g.retest, hi.g.noPanic, hi.g.mainSome, hi.g.ownerSome, hi.g.gracefulClosed, hi.g.noMain,
        hi.g.noOwner, hi.g.iceG, hi.g.sig, hi.g.media, hi.g.stored, hi.g.logClosed, hi.g.notifiedClosed,
        hi.g.notifiedFinal⟩,
      fun c cl hcl => (hi.each c cl hcl).repack rfl rfl rfl rfl rfl rfl rfl rfl rfl rfl rfl, hi.mainAt, hi.ownerAt, hi.upd⟩
  | env ice dtls =>
    simp only [step, Option.some.injEq] at h
    subst h
    exact ⟨⟨hi.g.retest, hi.g.noPanic, hi.g.mainSome, hi.g.ownerSome, hi.g.gracefulClosed, hi.g.noMain,
        hi.g.noOwner, hi.g.iceG, hi.g.sig, hi.g.media, hi.g.stored, hi.g.logClosed, hi.g.notifiedClosed,
        hi.g.notifiedFinal⟩,
      fun c cl hcl => (hi.each c cl hcl).repack rfl rfl rfl rfl rfl rfl rfl rfl rfl rfl rfl, hi.mainAt, hi.ownerAt, hi.upd⟩
  | lDeliver l =>
    simp only [step] at h
    split at h
    · rename_i hl
      split at h
      · cases h
      · cases h; exact closeInv_loop hi hl (by simp)
    · cases h
  | lReturn l =>
    simp only [step] at h
    split at h
    · rename_i hl; cases h; exact closeInv_loop hi hl (by simp)
    · cases h
  | lExit l =>
    simp only [step] at h
    split at h
    · rename_i hl; cases h; exact closeInv_loop hi hl (by simp)
    · cases h

theorem closeInv_of_reachable {gs : List Bool} {nu : Nat} {c0 : Pc} {s : St} (h : Reachable gs nu c0 s) :
    CloseInv s := by
  induction h with
  | init ls => exact closeInv_init gs nu c0 ls
  | step a _ hs ih => exact closeInv_step ih hs


/-! ### termination measure -/

theorem sum_map_set {α} (f : α → Nat) {l : List α} {i : Nat} {x : α} (y : α) (h : l[i]? = some x) :
    ((l.set i y).map f).sum + f x = (l.map f).sum + f y := by
  induction l generalizing i with
  | nil => simp at h
  | cons a t ih =>
    cases i with
    | zero => simp at h; subst h; simp; omega
    | succ i =>
      simp at h
      have := ih h
      simp only [List.set_cons_succ, List.map_cons, List.sum_cons]
      omega

theorem cstepFn_rank {s s1 : St} {c : Nat} {cl cl' : Closer} (h : cstepFn s c cl = some (s1, cl')) :
    cl'.pc.rank < cl.pc.rank := by
  obtain ⟨g, role, pc⟩ := cl
  cases pc <;> simp [cstepFn] at h <;>
    first
    | (obtain ⟨rfl, rfl⟩ := h; simp [CPc.rank, afterBody]; try (cases g <;> cases role <;> simp))
    | (obtain ⟨_, rfl, rfl⟩ := h; simp [CPc.rank, afterBody]; try (cases g <;> cases role <;> simp))
    | (cases role <;> simp at h <;> obtain ⟨rfl, rfl⟩ := h <;> simp [CPc.rank])

theorem measure_cstep {s s' : St} {c : Nat} (h : step s (.cstep c) = some s') : measure s' < measure s := by
  simp only [step] at h
  cases hcl : s.closers[c]? with
  | none => simp [hcl] at h
  | some cl =>
    cases hfn : cstepFn s c cl with
    | none => simp [hcl, hfn] at h
    | some r =>
      obtain ⟨s1, cl'⟩ := r
      simp only [hcl, hfn, Option.some.injEq] at h
      subst h
      have hcs := (cstepFn_closers hfn).1
      have hr := cstepFn_rank hfn
      have := sum_map_set (fun cl : Closer => cl.pc.rank) cl' hcl
      simp only [measure, hcs]
      omega

theorem closers_of_non_cstep {s s' : St} {a : Action} (h : step s a = some s') (ha : ∀ c, a ≠ .cstep c) :
    s'.closers = s.closers := by
  cases a with
  | cstep c => exact absurd rfl (ha c)
  | uCompute u ice dtls => simp only [step] at h; split at h <;> cases h; rfl
  | uStore u => simp only [step] at h; split at h <;> cases h; rfl
  | api a env => simp only [step, Option.some.injEq] at h; subst h; rfl
  | env ice dtls => simp only [step, Option.some.injEq] at h; subst h; rfl
  | lDeliver l => simp only [step] at h; split at h <;> (try split at h) <;> cases h; rfl
  | lReturn l => simp only [step] at h; split at h <;> cases h; rfl
  | lExit l => simp only [step] at h; split at h <;> cases h; rfl

/-- any sequence of close()-caller steps is at most `measure s` long -/
theorem run_csteps_bound {s s' : St} {cs : List Nat} (h : runActions s (cs.map .cstep) = some s') :
    cs.length + measure s' ≤ measure s := by
  induction cs generalizing s with
  | nil => simp [runActions] at h; subst h; simp
  | cons c t ih =>
    simp only [List.map_cons, runActions] at h
    cases hs : step s (.cstep c) with
    | none => simp [hs] at h
    | some s1 =>
      simp only [hs, Option.bind_some] at h
      have := ih h
      have := measure_cstep hs
      simp only [List.length_cons]
      omega

/-! ### progress -/

theorem enabled_of_cstepFn {s : St} {c : Nat} {cl : Closer} (hcl : s.closers[c]? = some cl)
    (h : (cstepFn s c cl).isSome = true) : (step s (.cstep c)).isSome = true := by
  simp only [step, hcl]
  cases hfn : cstepFn s c cl with
  | none => simp [hfn] at h
  | some r => simp

/-- the actions that bring the system closer to "every close() call has returned": a step of a caller, the
    application's handler returning, a read loop ending -/
def Action.isProgress : Action → Bool
  | .cstep _ | .lReturn _ | .lExit _ => true
  | _ => false

/-- a caller that is neither blocked on a channel nor finished can step -/
theorem cstepFn_isSome {s : St} {c : Nat} {cl : Closer} (hok : allowed cl.g cl.role cl.pc = true)
    (h1 : cl.pc ≠ .gWait) (h2 : cl.pc ≠ .cWait) (h3 : cl.pc ≠ .returned)
    (h4 : allExited s.loops = true ∨ (cl.pc ≠ .bJoin ∧ cl.pc ≠ .tJoin)) : (cstepFn s c cl).isSome = true := by
  obtain ⟨g, role, pc⟩ := cl
  cases pc <;> simp_all [cstepFn] <;> cases role <;> simp_all [allowed]

theorem cstepFn_isSome_gWait {s : St} {c : Nat} {cl : Closer} (hpc : cl.pc = .gWait)
    (h : s.gracefulDone = true) : (cstepFn s c cl).isSome = true := by
  obtain ⟨g, role, pc⟩ := cl
  simp only at hpc; subst hpc
  simp [cstepFn, h]

theorem cstepFn_isSome_cWait {s : St} {c : Nat} {cl : Closer} (hpc : cl.pc = .cWait)
    (h : s.closeDone = true) : (cstepFn s c cl).isSome = true := by
  obtain ⟨g, role, pc⟩ := cl
  simp only at hpc; subst hpc
  simp [cstepFn, h]

/-- while a read loop goroutine is alive, it can take a step towards its end -/
theorem loop_progress {s : St} (h : allExited s.loops = false) :
    ∃ a, a.isProgress = true ∧ (step s a).isSome = true := by
  simp only [allExited] at h
  have : ∃ x ∈ s.loops, x ≠ LPc.exited := by
    apply Classical.byContradiction
    intro hne
    have hall : s.loops.all (· == .exited) = true := by
      rw [List.all_eq_true]
      intro x hx
      apply Classical.byContradiction
      intro hx2
      exact hne ⟨x, hx, by simpa using hx2⟩
    rw [hall] at h; cases h
  obtain ⟨x, hx, hne⟩ := this
  obtain ⟨l, hl⟩ := List.getElem?_of_mem hx
  cases x with
  | reading => exact ⟨.lExit l, rfl, by simp [step, hl]⟩
  | handler => exact ⟨.lReturn l, rfl, by simp [step, hl]⟩
  | exited => exact absurd rfl hne

/-- a caller that is not waiting for another caller: it can step, or it is joining a live read loop that can -/
theorem progress_self {s : St} {c : Nat} {cl : Closer} (hcl : s.closers[c]? = some cl)
    (hok : allowed cl.g cl.role cl.pc = true)
    (h1 : cl.pc ≠ .gWait) (h2 : cl.pc ≠ .cWait) (h3 : cl.pc ≠ .returned) :
    ∃ a, a.isProgress = true ∧ (step s a).isSome = true := by
  cases hex : allExited s.loops with
  | true => exact ⟨.cstep c, rfl, enabled_of_cstepFn hcl (cstepFn_isSome hok h1 h2 h3 (Or.inl hex))⟩
  | false =>
    by_cases hj : cl.pc = .bJoin ∨ cl.pc = .tJoin
    · exact loop_progress hex
    · exact ⟨.cstep c, rfl, enabled_of_cstepFn hcl (cstepFn_isSome hok h1 h2 h3
        (Or.inr ⟨fun e => hj (Or.inl e), fun e => hj (Or.inr e)⟩))⟩

/-- a caller blocked on isCloseDone: it, the main caller, or a read loop the main caller joins can step -/
theorem progress_cWait {s : St} (hi : CloseInv s) {c : Nat} {cl : Closer} (hcl : s.closers[c]? = some cl)
    (hpc : cl.pc = .cWait) : ∃ a, a.isProgress = true ∧ (step s a).isSome = true := by
  have hok := hi.each c cl hcl
  have hclosed := hok.closed (by rw [hpc]; simp)
  have hms := hi.g.mainSome
  rw [hclosed] at hms
  obtain ⟨m, hm⟩ := Option.isSome_iff_exists.mp hms
  obtain ⟨clm, hclm, hrm⟩ := hi.mainAt m hm
  have hokm := hi.each m clm hclm
  by_cases hret : clm.pc = .returned
  · have hcd := hokm.mainCloseDone hrm
    rw [hret] at hcd
    exact ⟨.cstep c, rfl, enabled_of_cstepFn hcl (cstepFn_isSome_cWait hpc (by simpa [CPc.isReturned] using hcd))⟩
  · refine progress_self hclm hokm.allowed ?_ ?_ hret
    · intro e; have := hokm.allowed; rw [hrm, e] at this; simp [allowed] at this
    · intro e; have := hokm.allowed; rw [hrm, e] at this; simp [allowed] at this

/-- no deadlock: while some close() caller has not returned, a progress action is enabled -/
theorem progress {s : St} (hi : CloseInv s) {c : Nat} {cl : Closer} (hcl : s.closers[c]? = some cl)
    (hnr : cl.pc ≠ .returned) : ∃ a, a.isProgress = true ∧ (step s a).isSome = true := by
  have hok := hi.each c cl hcl
  by_cases hg : cl.pc = .gWait
  · -- a waiter: the owner of the graceful flag exists
    have hrole : cl.role = .waiter := by
      have := hok.allowed; rw [hg] at this
      cases hr : cl.role <;> simp [allowed, hr] at this ⊢
    have hgr := hok.waiterG hrole
    have hos := hi.g.ownerSome
    rw [hgr] at hos
    obtain ⟨o, ho⟩ := Option.isSome_iff_exists.mp hos
    obtain ⟨clo, hclo, hown⟩ := hi.ownerAt o ho
    have hoko := hi.each o clo hclo
    by_cases hpast : pastDG clo = true
    · have := hoko.ownerGDone hown
      rw [hpast] at this
      exact ⟨.cstep c, rfl, enabled_of_cstepFn hcl (cstepFn_isSome_gWait hg this)⟩
    · by_cases hcw : clo.pc = .cWait
      · exact progress_cWait hi hclo hcw
      · refine progress_self hclo hoko.allowed ?_ hcw ?_
        · intro e
          have ha := hoko.allowed
          obtain ⟨g2, r2, p2⟩ := clo
          simp only at e; subst e
          cases r2 <;> simp [allowed, isOwner] at ha hown
        · intro e
          have ha := hoko.allowed
          obtain ⟨g2, r2, p2⟩ := clo
          simp only at e; subst e
          cases r2 <;> simp [allowed, isOwner, pastDG] at ha hown hpast
  · by_cases hc : cl.pc = .cWait
    · exact progress_cWait hi hcl hc
    · exact progress_self hcl hok.allowed hg hc hnr

/-! ### termination of the progress actions -/

def totalMeasure (s : St) : Nat := measure s + loopMeasure s

theorem progress_decreases {s s' : St} {a : Action} (ha : a.isProgress = true) (h : step s a = some s') :
    totalMeasure s' < totalMeasure s := by
  cases a with
  | cstep c =>
    have hm := measure_cstep h
    have hl : s'.loops = s.loops := by
      simp only [step] at h
      cases hcl : s.closers[c]? with
      | none => simp [hcl] at h
      | some cl =>
        cases hfn : cstepFn s c cl with
        | none => simp [hcl, hfn] at h
        | some r =>
          obtain ⟨s1, cl'⟩ := r
          simp only [hcl, hfn, Option.some.injEq] at h
          subst h
          exact (cstepFn_closers hfn).2.2.2.2.2
    simp only [totalMeasure, loopMeasure, hl]; omega
  | lReturn l =>
    simp only [step] at h
    split at h
    · rename_i hl
      cases h
      have := sum_map_set LPc.rank LPc.reading hl
      simp only [totalMeasure, loopMeasure, measure, LPc.rank] at this ⊢
      omega
    · cases h
  | lExit l =>
    simp only [step] at h
    split at h
    · rename_i hl
      cases h
      have := sum_map_set LPc.rank LPc.exited hl
      simp only [totalMeasure, loopMeasure, measure, LPc.rank] at this ⊢
      omega
    · cases h
  | uCompute _ _ _ => cases ha
  | uStore _ => cases ha
  | api _ _ => cases ha
  | env _ _ => cases ha
  | lDeliver _ => cases ha

/-- from every state satisfying the invariant some schedule of progress actions (caller steps, handlers
    returning, read loops ending) lets every close() caller return; it is at most `totalMeasure s` long -/
theorem exists_completion {s : St} (hi : CloseInv s) :
    ∃ as : List Action, ∃ s', runActions s as = some s' ∧ as.length ≤ totalMeasure s
      ∧ (∀ a ∈ as, a.isProgress = true)
      ∧ ∀ (c : Nat) (cl : Closer), s'.closers[c]? = some cl → cl.pc = .returned := by
  generalize hn : totalMeasure s = n
  induction n using Nat.strongRecOn generalizing s with
  | _ n ih =>
    by_cases hall : ∀ (c : Nat) (cl : Closer), s.closers[c]? = some cl → cl.pc = .returned
    · exact ⟨[], s, rfl, by simp, by simp, hall⟩
    · have : ∃ (c : Nat) (cl : Closer), s.closers[c]? = some cl ∧ cl.pc ≠ .returned := by
        apply Classical.byContradiction
        intro hne
        apply hall
        intro c cl hcl
        apply Classical.byContradiction
        intro hr
        exact hne ⟨c, cl, hcl, hr⟩
      obtain ⟨c, cl, hcl, hnr⟩ := this
      obtain ⟨a, hpa, hen⟩ := progress hi hcl hnr
      obtain ⟨s1, hs1⟩ := Option.isSome_iff_exists.mp hen
      have hlt := progress_decreases hpa hs1
      obtain ⟨as, s', hrun, hlen, hprog, hret⟩ := ih (totalMeasure s1) (by omega) (closeInv_step hi hs1) rfl
      refine ⟨a :: as, s', ?_, ?_, ?_, hret⟩
      · simp only [runActions, hs1, Option.bind_some]; exact hrun
      · simp only [List.length_cons]; omega
      · intro b hb
        rcases List.mem_cons.mp hb with rfl | hb
        · exact hpa
        · exact hprog b hb

end WebrtcVerif.Close
