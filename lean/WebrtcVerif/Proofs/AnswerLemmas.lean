import WebrtcVerif.Model.AnswerCodecs
import WebrtcVerif.Proofs.CodecLemmas
import WebrtcVerif.Proofs.RtxFilterLemmas
/-! Lemmas about the codecs a transceiver answers with (C16). -/
namespace WebrtcVerif.AnswerCodecs
open WebrtcVerif.Codec

/-- the two codecs agree on everything the matchers look at (all but payload type and feedback) -/
def SameAttrs (a b : CodecP) : Prop :=
  a.mime = b.mime ∧ a.clock = b.clock ∧ a.channels = b.channels ∧ a.fmtp = b.fmtp

theorem SameAttrs.refl (a : CodecP) : SameAttrs a a := ⟨rfl, rfl, rfl, rfl⟩
theorem SameAttrs.symm {a b : CodecP} (h : SameAttrs a b) : SameAttrs b a := ⟨h.1.symm, h.2.1.symm, h.2.2.1.symm, h.2.2.2.symm⟩
theorem SameAttrs.trans {a b c : CodecP} (h : SameAttrs a b) (g : SameAttrs b c) : SameAttrs a c :=
  ⟨h.1.trans g.1, h.2.1.trans g.2.1, h.2.2.1.trans g.2.2.1, h.2.2.2.trans g.2.2.2⟩

theorem parse_congr {a b : CodecP} (h : SameAttrs a b) : a.parse = b.parse := by
  unfold CodecP.parse; rw [h.1, h.2.1, h.2.2.1, h.2.2.2]

theorem exactPred_congr {a a' b b' : CodecP} (ha : SameAttrs a a') (hb : SameAttrs b b') :
    exactPred a b = exactPred a' b' := by
  unfold exactPred; rw [parse_congr ha, parse_congr hb]

theorem partialPred_congr {a a' b b' : CodecP} (ha : SameAttrs a a') (hb : SameAttrs b b') :
    partialPred a b = partialPred a' b' := by
  unfold partialPred; rw [ha.1, ha.2.1, ha.2.2.1, hb.1, hb.2.1, hb.2.2.1]

theorem partialPred_refl (a : CodecP) : partialPred a a = true := by
  unfold partialPred equalFold clockRateEqual channelsEqual
  simp

/-- `c`'s payload type is listed by the offer section `rs` for the same codec (mime type without regard to
    case, clock rate and channels up to the codec's defaults) -/
def OfferedIn (rs : List CodecP) (c : CodecP) : Prop := ∃ r ∈ rs, r.pt = c.pt ∧ partialPred c r = true

/-- every codec of the list `e` stems from the offer section `rs` (payload type and attributes) -/
def FromOffer (rs e : List CodecP) : Prop := ∀ x ∈ e, ∃ r ∈ rs, r.pt = x.pt ∧ SameAttrs r x

/-- what a preference must satisfy: payload type left open, or that of an engine codec it matches -/
def PrefOk (e : List CodecP) (p : CodecP) : Prop :=
  p.pt = 0 ∨ ∃ x ∈ e, x.pt = p.pt ∧ (exactPred p x = true ∨ partialPred p x = true)

/-- an exact (fmtp-level) match implies agreement on mime type, clock rate and channels -/
def ExactIsPartial (ps e : List CodecP) : Prop := ∀ p ∈ ps, ∀ x ∈ e, exactPred p x = true → partialPred p x = true

theorem offered_of_mem {rs e : List CodecP} (hE : FromOffer rs e) {c : CodecP} (hc : c ∈ e) : OfferedIn rs c := by
  rcases hE c hc with ⟨r, hr, hpt, ha⟩
  exact ⟨r, hr, hpt, by rw [partialPred_congr (SameAttrs.refl c) ha]; exact partialPred_refl c⟩

/-- no preferences: the transceiver answers with the negotiated codecs of its kind -/
theorem getCodecs_noPrefs_offered {rs e : List CodecP} (hE : FromOffer rs e) :
    ∀ c ∈ getCodecs e [], OfferedIn rs c := by
  intro c hc
  have : c ∈ filterUnattachedRTX e := by simpa [getCodecs, transceiverGetCodecs] using hc
  exact offered_of_mem hE (mem_of_mem_filterUnattachedRTX this)

theorem mapPrefs_offered {rs e prefs : List CodecP} (hE : FromOffer rs e) (hP : ∀ p ∈ prefs, PrefOk e p)
    (hX : ExactIsPartial prefs e) : ∀ c ∈ mapPrefs e prefs, OfferedIn rs c := by
  intro c hc
  rcases mem_mapPrefs hc with ⟨p, hp, hne, rfl⟩
  generalize hf : fuzzySearch p e = res at hne
  rcases res with ⟨m, mt⟩
  have hm := fuzzy_matchedAs hf hne
  have hattr : SameAttrs ({ p with pt := if p.pt = 0 then m.pt else p.pt, fb := fbInter p.fb m.fb } : CodecP) p :=
    ⟨rfl, rfl, rfl, rfl⟩
  have partial_of : ∀ x ∈ e, (exactPred p x = true ∨ partialPred p x = true) → partialPred p x = true := by
    intro x hx h; rcases h with h | h
    · exact hX p hp x hx h
    · exact h
  by_cases h0 : p.pt = 0
  · simp only [h0, if_true]
    have hpm : partialPred p m = true := partial_of m hm.1 hm.2.matches
    rcases hE m hm.1 with ⟨r, hr, hpt, ha⟩
    exact ⟨r, hr, hpt, (partialPred_congr (a' := p) (b' := m) ⟨rfl, rfl, rfl, rfl⟩ ha).trans hpm⟩
  · simp only [h0, if_false]
    rcases hP p hp with h | ⟨x, hx, hxpt, hmatch⟩
    · exact absurd h h0
    · have hpx := partial_of x hx hmatch
      rcases hE x hx with ⟨r, hr, hpt, ha⟩
      exact ⟨r, hr, hpt.trans hxpt, (partialPred_congr (a' := p) (b' := x) ⟨rfl, rfl, rfl, rfl⟩ ha).trans hpx⟩

/-- with preferences: every answered codec is offered, when each preference leaves its payload type open or
    uses that of an engine codec it matches -/
theorem getCodecs_prefs_offered {rs e prefs : List CodecP} (hE : FromOffer rs e) (hP : ∀ p ∈ prefs, PrefOk e p)
    (hX : ExactIsPartial prefs e) : ∀ c ∈ getCodecs e prefs, OfferedIn rs c := by
  intro c hc
  rw [show getCodecs e prefs = filterUnattachedRTX (preFilter e prefs) from getCodecs_eq e prefs] at hc
  have hc' := mem_of_mem_filterUnattachedRTX hc
  unfold preFilter at hc'
  split at hc'
  · exact offered_of_mem hE hc'
  · exact mapPrefs_offered hE hP hX c hc'

/-! ### setCodecPreferencesFromRemoteDescription -/

theorem eraseFirstPt_sublist : ∀ (l : List CodecP) (pt : Nat), (eraseFirstPt l pt).Sublist l := by
  intro l
  induction l with
  | nil => intro pt; simp [eraseFirstPt]
  | cons c cs ih =>
    intro pt
    unfold eraseFirstPt
    split
    · exact List.sublist_cons_self c cs
    · exact (ih pt).cons_cons c

/-- what `filterByMatchType` returns: the codecs left are among those given; each selected codec is a remote
    codec (not RTX) carrying the payload type of a local codec it matches; the remote codecs kept are among
    those given -/
theorem filterByMatchType_spec (mt : MatchType) (hmt : mt ≠ .mNone) : ∀ (rs left : List CodecP) (m : PtMap),
    (filterByMatchType mt rs left m).left.Sublist left ∧
    (∀ r ∈ (filterByMatchType mt rs left m).remote, r ∈ rs) ∧
    (∀ p ∈ (filterByMatchType mt rs left m).out, ∃ rc ∈ rs, ∃ mc ∈ left,
      p = { rc with pt := mc.pt } ∧ (exactPred rc mc = true ∨ partialPred rc mc = true)) := by
  intro rs
  induction rs with
  | nil => intro left m; simp [filterByMatchType]
  | cons rc rest ih =>
    intro left m
    obtain ⟨ih1, ih2, ih3⟩ := ih left m
    unfold filterByMatchType
    simp only
    split
    · refine ⟨ih1, ?_, ?_⟩
      · intro r hr
        rcases List.mem_cons.mp hr with h | h
        · simp [h]
        · exact List.mem_cons_of_mem _ (ih2 r h)
      · intro p hp
        rcases ih3 p hp with ⟨rc', hrc', mc, hmc, hpe, hmatch⟩
        exact ⟨rc', List.mem_cons_of_mem _ hrc', mc, hmc, hpe, hmatch⟩
    · generalize hf : fuzzySearch rc (filterByMatchType mt rest left m).left = res
      rcases res with ⟨mc, t⟩
      simp only
      split
      · rename_i ht
        subst ht
        have hm := fuzzy_matchedAs hf hmt
        refine ⟨(eraseFirstPt_sublist _ _).trans ih1, ?_, ?_⟩
        · intro r hr; exact List.mem_cons_of_mem _ (ih2 r hr)
        · intro p hp
          rcases List.mem_cons.mp hp with h | h
          · exact ⟨rc, List.mem_cons_self, mc, ih1.subset hm.1, h, hm.2.matches⟩
          · rcases ih3 p h with ⟨rc', hrc', mc', hmc', hpe, hmatch⟩
            exact ⟨rc', List.mem_cons_of_mem _ hrc', mc', hmc', hpe, hmatch⟩
      · refine ⟨ih1, ?_, ?_⟩
        · intro r hr
          rcases List.mem_cons.mp hr with h | h
          · simp [h]
          · exact List.mem_cons_of_mem _ (ih2 r h)
        · intro p hp
          rcases ih3 p hp with ⟨rc', hrc', mc, hmc, hpe, hmatch⟩
          exact ⟨rc', List.mem_cons_of_mem _ hrc', mc, hmc, hpe, hmatch⟩

theorem rtxFor_mem {remote left : List CodecP} {kv : Nat × Nat} {l : CodecP} (h : rtxFor remote left kv = some l) :
    l ∈ left := by
  unfold rtxFor at h
  split at h
  · cases h
  · simp only at h
    split at h
    · cases h
    · exact List.mem_of_find?_eq_some h

/-- every entry of the list handed to SetCodecPreferences is an engine codec, or a remote codec carrying the
    payload type of an engine codec it matches — in whatever order Go walks the payload type mapping -/
theorem remotePreferenceList_spec (order : PtMap → PtMap) (e rs : List CodecP) :
    ∀ p ∈ remotePreferenceList order e rs,
      p ∈ e ∨ ∃ rc ∈ rs, ∃ mc ∈ e, p = { rc with pt := mc.pt } ∧ (exactPred rc mc = true ∨ partialPred rc mc = true) := by
  intro p hp
  unfold remotePreferenceList at hp
  simp only at hp
  have s1 := filterByMatchType_spec .mExact (by simp) rs e []
  have s2 := filterByMatchType_spec .mPartial (by simp) (filterByMatchType .mExact rs e []).remote
    (filterByMatchType .mExact rs e []).left (filterByMatchType .mExact rs e []).mapping
  rcases List.mem_append.mp hp with hp | hp
  · rcases List.mem_append.mp hp with hp | hp
    · exact Or.inr (s1.2.2 p hp)
    · rcases s2.2.2 p hp with ⟨rc, hrc, mc, hmc, hpe, hmatch⟩
      exact Or.inr ⟨rc, s1.2.1 rc hrc, mc, s1.1.subset hmc, hpe, hmatch⟩
  · rcases List.mem_filterMap.mp hp with ⟨kv, _, hkv⟩
    exact Or.inl (s1.1.subset (s2.1.subset (rtxFor_mem hkv)))

/-- the preferences of a transceiver created by SetRemoteDescription are fine in the sense of `PrefOk` -/
theorem remotePreferenceList_prefOk (order : PtMap → PtMap) (e rs : List CodecP) :
    ∀ p ∈ remotePreferenceList order e rs, PrefOk e p := by
  intro p hp
  rcases remotePreferenceList_spec order e rs p hp with h | ⟨rc, _, mc, hmc, rfl, hmatch⟩
  · exact Or.inr ⟨p, h, rfl, Or.inr (partialPred_refl p)⟩
  · refine Or.inr ⟨mc, hmc, rfl, ?_⟩
    have ha : SameAttrs ({ rc with pt := mc.pt } : CodecP) rc := ⟨rfl, rfl, rfl, rfl⟩
    rw [exactPred_congr ha (SameAttrs.refl mc), partialPred_congr ha (SameAttrs.refl mc)]
    exact hmatch

theorem remotePreferenceList_exactIsPartial (order : PtMap → PtMap) {e rs : List CodecP}
    (hX : ExactIsPartial (rs ++ e) e) : ExactIsPartial (remotePreferenceList order e rs) e := by
  intro p hp x hx hex
  rcases remotePreferenceList_spec order e rs p hp with h | ⟨rc, hrc, mc, _, rfl, _⟩
  · exact hX p (List.mem_append_right _ h) x hx hex
  · have ha : SameAttrs ({ rc with pt := mc.pt } : CodecP) rc := ⟨rfl, rfl, rfl, rfl⟩
    rw [exactPred_congr ha (SameAttrs.refl x)] at hex
    rw [partialPred_congr ha (SameAttrs.refl x)]
    exact hX rc (List.mem_append_left _ hrc) x hx hex

/-- `ExactIsPartial` for everything involved follows from the offer section alone -/
theorem exactIsPartial_of_offer {rs e : List CodecP} (hE : FromOffer rs e) (h : ExactIsPartial rs rs) :
    ExactIsPartial (rs ++ e) e := by
  intro p hp x hx hex
  rcases hE x hx with ⟨rx, hrx, _, hax⟩
  rcases List.mem_append.mp hp with hp | hp
  · rw [exactPred_congr (SameAttrs.refl p) hax.symm] at hex
    rw [partialPred_congr (SameAttrs.refl p) hax.symm]
    exact h p hp rx hrx hex
  · rcases hE p hp with ⟨rp, hrp, _, hap⟩
    rw [exactPred_congr hap.symm hax.symm] at hex
    rw [partialPred_congr hap.symm hax.symm]
    exact h rp hrp rx hrx hex

/-- **a transceiver created by SetRemoteDescription answers with offered codecs** -/
theorem newTransceiver_offered (order : PtMap → PtMap) {rs e : List CodecP} (hE : FromOffer rs e)
    (hX : ExactIsPartial rs rs) :
    ∀ c ∈ getCodecs e (setCodecPreferences e [] (remotePreferenceList order e rs)).1, OfferedIn rs c := by
  unfold setCodecPreferences
  split
  · exact getCodecs_noPrefs_offered hE
  · apply getCodecs_prefs_offered hE
    · intro p hp
      exact remotePreferenceList_prefOk order e rs p (mem_of_mem_filterUnattachedRTX hp)
    · intro p hp
      exact remotePreferenceList_exactIsPartial order (exactIsPartial_of_offer hE hX) p
        (mem_of_mem_filterUnattachedRTX hp)

theorem fromOffer_self (rs : List CodecP) : FromOffer rs rs := fun x hx => ⟨x, hx, rfl, SameAttrs.refl x⟩

theorem exactIsPartial_of_decide {ps e : List CodecP}
    (h : ps.all (fun p => e.all (fun x => !exactPred p x || partialPred p x)) = true) : ExactIsPartial ps e := by
  intro p hp x hx hex
  have := List.all_eq_true.mp (List.all_eq_true.mp h p hp) x hx
  simpa [hex] using this


end WebrtcVerif.AnswerCodecs
