import WebrtcVerif.Proofs.OggLemmas
/-!
  The reader model on ARBITRARY bytes (for C37): `ParseNextPage`, `ParseOpusHead`, `ParseOpusTags` never reach
  the `.panic` outcome (every index/slice is covered by a preceding length test), and a successful
  `ParseNextPage` consumes at least the 27 header bytes.
-/
namespace WebrtcVerif.Ogg
open WebrtcVerif.Bytes

theorem readN_ok_inv (n : Nat) (s a r : Bs) (h : readN n s = .ok a r) : s = a ++ r ∧ a.length = n := by
  rw [readN_eq_readFull] at h
  unfold readFull at h
  split at h
  · injection h with h1 h2
    subst h1; subst h2
    simp; omega
  · split at h <;> cases h

theorem parseNextPage_no_panic (ck : Bool) (s : Bs) : parseNextPage ck s ≠ .panic := by
  unfold parseNextPage
  cases h : readN 27 s with
  | eof => simp
  | short => simp
  | ok header rest =>
    obtain ⟨_, hl⟩ := readN_ok_inv _ _ _ _ h
    match header, hl with
    | [s0, s1, s2, s3, ver, ht, g0, g1, g2, g3, g4, g5, g6, g7, n0, n1, n2, n3, i0, i1, i2, i3, c0, c1, c2, c3, nseg], _ =>
      simp only
      cases readN nseg.toNat rest with
      | eof => simp
      | short => simp
      | ok sizeBuffer rest2 =>
        simp only
        cases readN (sumSegs sizeBuffer) rest2 with
        | eof => simp
        | short => simp
        | ok payload rest3 =>
          simp only
          split <;> simp

theorem parseNextPage_progress (ck : Bool) (s payload : Bs) (hdr : PageHeader) (rest : Bs)
    (h : parseNextPage ck s = .ok payload hdr rest) : rest.length + 27 ≤ s.length := by
  unfold parseNextPage at h
  cases h1 : readN 27 s with
  | eof => rw [h1] at h; cases h
  | short => rw [h1] at h; cases h
  | ok header r1 =>
    obtain ⟨e1, hl⟩ := readN_ok_inv _ _ _ _ h1
    rw [h1] at h
    match header, hl with
    | [s0, s1, s2, s3, ver, ht, g0, g1, g2, g3, g4, g5, g6, g7, n0, n1, n2, n3, i0, i1, i2, i3, c0, c1, c2, c3, nseg], _ =>
      simp only at h
      cases h2 : readN nseg.toNat r1 with
      | eof => rw [h2] at h; cases h
      | short => rw [h2] at h; cases h
      | ok sizeBuffer r2 =>
        obtain ⟨e2, _⟩ := readN_ok_inv _ _ _ _ h2
        rw [h2] at h
        simp only at h
        cases h3 : readN (sumSegs sizeBuffer) r2 with
        | eof => rw [h3] at h; cases h
        | short => rw [h3] at h; cases h
        | ok pl r3 =>
          obtain ⟨e3, _⟩ := readN_ok_inv _ _ _ _ h3
          rw [h3] at h
          simp only at h
          split at h
          · cases h
          · injection h with _ _ hr
            subst hr
            rw [e1, e2, e3]
            simp; omega

theorem slice_some (p : Bs) (a c : Nat) (h1 : a ≤ c) (h2 : c ≤ p.length) : ∃ x, slice p a c = some x ∧ x.length = c - a := by
  refine ⟨(p.drop a).take (c - a), by simp [slice, h1, h2], ?_⟩
  simp [List.length_take, List.length_drop]; omega

theorem list_len2 (x : Bs) (h : x.length = 2) : ∃ a c, x = [a, c] := by
  match x, h with | [a, c], _ => exact ⟨a, c, rfl⟩
theorem list_len4 (x : Bs) (h : x.length = 4) : ∃ a c d e, x = [a, c, d, e] := by
  match x, h with | [a, c, d, e], _ => exact ⟨a, c, d, e, rfl⟩

theorem parseOpusHead_no_panic (payload : Bs) : parseOpusHead payload ≠ .panic := by
  unfold parseOpusHead
  split
  · simp
  · rename_i hlen
    have hl : 19 ≤ payload.length := by omega
    obtain ⟨x1, e1, l1⟩ := slice_some payload 10 12 (by omega) (by omega)
    obtain ⟨x2, e2, l2⟩ := slice_some payload 12 16 (by omega) (by omega)
    obtain ⟨x3, e3, l3⟩ := slice_some payload 16 18 (by omega) (by omega)
    obtain ⟨p0, p1, rfl⟩ := list_len2 x1 l1
    obtain ⟨r0, r1, r2, r3, rfl⟩ := list_len4 x2 l2
    obtain ⟨g0, g1, rfl⟩ := list_len2 x3 l3
    obtain ⟨v8, h8⟩ : ∃ v, payload[8]? = some v := ⟨payload[8], by simp⟩
    obtain ⟨v9, h9⟩ : ∃ v, payload[9]? = some v := ⟨payload[9], by simp⟩
    obtain ⟨v18, h18⟩ : ∃ v, payload[18]? = some v := ⟨payload[18], by simp⟩
    unfold parseHeadFields
    rw [h8, h9, e1, e2, e3, h18]
    simp only
    split
    · split <;> simp
    · split
      · split
        · simp
        · rename_i hl2
          have hl3 : payload.length = 21 + v9.toNat := by simpa using hl2
          obtain ⟨x4, e4, _⟩ := slice_some payload 21 (21 + v9.toNat) (by omega) (by omega)
          obtain ⟨v19, h19⟩ : ∃ v, payload[19]? = some v := ⟨payload[19], by simp⟩
          obtain ⟨v20, h20⟩ : ∃ v, payload[20]? = some v := ⟨payload[20], by simp⟩
          rw [h19, h20, e4]; simp
      · simp


theorem slice4 (p : Bs) (a : Nat) (h : a + 4 ≤ p.length) : ∃ n, (slice p a (a + 4)).bind rd32leL = some n := by
  obtain ⟨x, e, l⟩ := slice_some p a (a + 4) (by omega) h
  obtain ⟨a0, a1, a2, a3, rfl⟩ := list_len4 x (by omega)
  exact ⟨_, by rw [e]; rfl⟩

theorem commentsLoop_no_panic (payload : Bs) : ∀ (n pos : Nat), (parseUserCommentsLoop payload n pos).1 ≠ .panic := by
  intro n
  induction n with
  | zero => intro pos; simp [parseUserCommentsLoop]
  | succ n ih =>
    intro pos
    unfold parseUserCommentsLoop
    split
    · simp
    · rename_i h1
      obtain ⟨cl, hcl⟩ := slice4 payload pos (by omega)
      rw [hcl]
      simp only
      split
      · simp
      · rename_i h2
        obtain ⟨x, e, _⟩ := slice_some payload (pos + 4) (pos + 4 + cl) (by omega) (by omega)
        rw [e]
        simp only
        split
        · simp
        · exact ih _

theorem parseOpusTags_no_panic (payload : Bs) : parseOpusTags payload ≠ .panic := by
  unfold parseOpusTags
  split
  · simp
  · rename_i h0
    obtain ⟨sig, e0, _⟩ := slice_some payload 0 8 (by omega) (by omega)
    rw [e0]
    simp only
    split
    · simp
    · obtain ⟨vl, hvl⟩ := slice4 payload 8 (by omega)
      rw [hvl]
      simp only
      split
      · simp
      · rename_i h1
        split
        · simp
        · rename_i h2
          obtain ⟨v, ev, _⟩ := slice_some payload 12 (12 + vl) (by omega) (by omega)
          obtain ⟨cnt, hcnt⟩ := slice4 payload (12 + vl) (by omega)
          rw [ev, hcnt]
          simp only
          split
          · simp
          · have hnp := commentsLoop_no_panic payload cnt (12 + vl + 4)
            cases hr : parseUserCommentsLoop payload cnt (12 + vl + 4) with
            | mk r cs =>
              rw [hr] at hnp
              cases r <;> simp_all

end WebrtcVerif.Ogg
