import WebrtcVerif.Model.Ogg
import WebrtcVerif.Model.OggSpec
/-!
  The Opus duration computed by the writer (`opusPacketSampleCount`) is the packet duration of RFC 6716 §3.1
  (`OggSpec.packetSamples`), and the writer refuses exactly the packets that have no valid duration.
  The per-byte facts are checked on all 256 byte values by kernel evaluation (`decide`).
-/
namespace WebrtcVerif.Ogg
open WebrtcVerif.Bytes WebrtcVerif.OggSpec

theorem u8_forall (P : UInt8 → Prop) (h : ∀ i : Fin 256, P (UInt8.ofNat i)) : ∀ x, P x := by
  intro x
  have := h ⟨x.toNat, x.toNat_lt⟩
  simpa using this

set_option maxRecDepth 100000 in
theorem spf_eq : ∀ toc, opusSamplesPerFrame toc = frameSamples toc := by
  apply u8_forall
  decide

set_option maxRecDepth 100000 in
theorem code_eq : ∀ toc : UInt8, (toc &&& 3).toNat = toc.toNat % 4 ∧ (toc &&& 0x3f).toNat = toc.toNat % 64 := by
  apply u8_forall
  decide

theorem gate (x : Nat) :
    (if 5760 < x then (Except.error Err.invalidOpusPacket : Except Err Nat) else Except.ok x) =
      match (if x ≤ 5760 then some x else none) with
      | some n => Except.ok n
      | none => Except.error Err.invalidOpusPacket := by
  by_cases h : x ≤ 5760
  · rw [if_neg (by omega), if_pos h]
  · rw [if_pos (by omega), if_neg h]

/-- the writer's sample count is RFC 6716's packet duration, and it refuses exactly the packets that have none -/
theorem sampleCount_spec (p : Bs) :
    opusPacketSampleCount p = match packetSamples p with
      | some n => .ok n
      | none => .error .invalidOpusPacket := by
  cases p with
  | nil => rfl
  | cons toc rest =>
    have hc := (code_eq toc).1
    have h4 : toc.toNat % 4 = 0 ∨ toc.toNat % 4 = 1 ∨ toc.toNat % 4 = 2 ∨ toc.toNat % 4 = 3 := by omega
    simp only [opusPacketSampleCount, opusPacketFrameCount, packetSamples, spf_eq, maxOpusPacketSamples]
    rcases h4 with h | h | h | h
    · have e : toc &&& 3 = 0 := UInt8.toNat_inj.mp (by rw [hc, h]; rfl)
      simp only [e, h]
      simpa using gate (frameSamples toc * 1)
    · have e : toc &&& 3 = 1 := UInt8.toNat_inj.mp (by rw [hc, h]; rfl)
      simp only [e, h]
      simpa using gate (frameSamples toc * 2)
    · have e : toc &&& 3 = 2 := UInt8.toNat_inj.mp (by rw [hc, h]; rfl)
      simp only [e, h]
      simpa using gate (frameSamples toc * 2)
    · have e : toc &&& 3 = 3 := UInt8.toNat_inj.mp (by rw [hc, h]; rfl)
      simp only [e, h]
      cases rest with
      | nil => simp
      | cons x xs =>
        have hx := (code_eq x).2
        by_cases hz : x.toNat % 64 = 0
        · have ez : x &&& 0x3f = 0 := UInt8.toNat_inj.mp (by rw [hx, hz]; rfl)
          simp [ez, hz]
        · have ez : ¬ (x &&& 0x3f = 0) := fun e0 => hz (by rw [← hx, e0]; rfl)
          simp only [hz, if_false]
          simp [ez, hx]
          simpa using gate (frameSamples toc * (x.toNat % 64))
end WebrtcVerif.Ogg

