import WebrtcVerif.Proofs.SampleBuilderLemmas
/-!
  History-level invariants for C31: every buffered packet was pushed and sits in the slot of its own sequence
  number, no packet sits outside the filled range (unless the ring was filled completely), and every sample
  waiting in `preparedSamples` is well-formed.
-/
namespace WebrtcVerif.SampleBuilder

/-- a well-formed sample (first clause of the property), relative to a set `P` of pushed packets -/
structure WF (P : Packet → Prop) (d : Depack) (sm : Sample) : Prop where
  /-- at least one packet, consecutive sequence numbers on the ring -/
  consecutive : ∃ h0 : UInt16, 0 < sm.pkts.length ∧ sm.pkts.length < 65536 ∧
    ∀ j (hj : j < sm.pkts.length), sm.pkts[j].seq = adv h0 j
  pushed : ∀ p ∈ sm.pkts, P p
  sameTs : ∀ p ∈ sm.pkts, p.ts = sm.ts
  head : ∃ hp tl, sm.pkts = hp :: tl ∧ d.isHead hp.payload = true
  data : ∃ parts, unmarshalAll d sm.pkts = some parts ∧ sm.data = parts.flatten

/-- every buffered packet was pushed and sits in the slot of its own sequence number -/
def SlotOk (P : Packet → Prop) (s : State) : Prop :=
  ∀ i p, s.buffer.get i = some p → p.seq = i ∧ P p

/-- no packet outside the filled range -/
def NonStray (s : State) : Prop :=
  ∀ i p, s.buffer.get i = some p → dist s.filled.head i < dist s.filled.head s.filled.tail

def PrepOk (Q : Sample → Prop) (s : State) : Prop :=
  ∀ i sm, s.preparedSamples.get i = some sm → Q sm

structure Inv (P : Packet → Prop) (d : Depack) (s : State) : Prop where
  slot : SlotOk P s
  stray : NonStray s
  prep : PrepOk (WF P d) s

theorem Progress.slotOk {P : Packet → Prop} {s r : State} {k : Nat} (h : Progress s r k) (hs : SlotOk P s) :
    SlotOk P r := by
  intro i p hp
  rw [h.buf i] at hp
  split at hp
  · cases hp
  · exact hs i p hp

theorem Progress.nonStray {s r : State} {k : Nat} (h : Progress s r k) (hs : NonStray s) : NonStray r := by
  intro i p hp
  rw [h.buf i] at hp
  split at hp
  · cases hp
  · rename_i hk
    have := hs i p hp
    rw [h.head, h.tail, dist_adv_left _ _ _ h.le]
    have hle := h.le
    have hdi : dist (adv s.filled.head k) i = dist s.filled.head i - k := dist_adv_left _ _ _ (by omega)
    rw [hdi]; omega

/-! ### prepared samples -/

theorem purgeLoc_same (n : Nat) (s : State) (c : Loc) (f : Bool) (hn : dist s.filled.head s.filled.tail < n) :
    SameExceptBuffer s (purgeLoc n s c f) := by
  obtain ⟨k, _, e⟩ := purgeLoc_eq_releaseN n s c f hn
  rw [e]; exact releaseN_same k s

theorem finishPurge_same (s : State) (c : Loc) : SameExceptBuffer s (finishPurge s c) := by
  unfold finishPurge purgeConsumed
  exact (purgeLoc_same _ s c true (ringFuel_gt s)).trans (purgeLoc_same _ _ _ false (ringFuel_gt _))

@[simp] theorem reseed_preparedSamples (s : State) : (reseed s).preparedSamples = s.preparedSamples := by
  unfold reseed; split <;> rfl
@[simp] theorem extend_preparedSamples (s : State) : (extend s).preparedSamples = s.preparedSamples := by
  unfold extend; split <;> rfl
@[simp] theorem reseed_prepared (s : State) : (reseed s).prepared = s.prepared := by
  unfold reseed; split <;> rfl
@[simp] theorem extend_prepared (s : State) : (extend s).prepared = s.prepared := by
  unfold extend; split <;> rfl

/-- `buildSample` either leaves `preparedSamples` alone or stores the sample it returns at `prepared.tail` -/
theorem buildSample_prepared (d : Depack) (s : State) (p : Bool) :
    ((buildSample d s p).2 = none ∧ (buildSample d s p).1.preparedSamples = s.preparedSamples) ∨
    ∃ sm, (buildSample d s p).2 = some sm ∧
      (buildSample d s p).1.preparedSamples = s.preparedSamples.set s.prepared.tail (some sm) := by
  cases hb : buildSample d s p with
  | mk s' r =>
    cases r with
    | some sm =>
      right
      obtain ⟨_, _, _, _, _, _, _, _, hemit, _⟩ := buildSample_run hb
      obtain ⟨_, _, _, _, _, _, _, _, _, _, hs'⟩ := emit_some hemit
      refine ⟨sm, rfl, ?_⟩
      simp only
      rw [hs', (finishPurge_same _ _).preparedSamples]
      simp [afterEmit]
    | none =>
      left
      refine ⟨rfl, ?_⟩
      simp only
      unfold buildSample at hb
      simp only at hb
      split at hb
      · cases hb; simp
      · split at hb
        · cases hb; simp
        · split at hb
          · cases hb; simp
          · split at hb
            · cases hb; simp
            · rename_i t _ _ _
              unfold emit at hb
              simp only at hb
              split at hb
              · cases hb; simp
              · cases hb; simp
              · split at hb
                · simp only [Prod.mk.injEq] at hb
                  rw [← hb.1, (finishPurge_same _ _).preparedSamples]
                  simp
                · split at hb
                  · cases hb; simp
                  · simp at hb

/-! ### a sample built in a state satisfying the invariant is well-formed -/

/-- with no packet outside the filled range, the active range cannot have been emptied by the tail update
    when a sample comes out -/
theorem nonStray_activeOk {d : Depack} {s s' : State} {p : Bool} {sm : Sample}
    (h : buildSample d s p = (s', some sm)) (hs : NonStray s) : ActiveOk s := by
  obtain ⟨t, hne, _, _, _, _⟩ := buildSample_some h
  obtain ⟨k, hk0', _, hlen, hget, _⟩ := buildSample_run h
  have hk0 : 0 < sm.pkts.length := by omega
  unfold ActiveOk
  intro hemp
  have h0 := hget 0 hk0
  rw [adv_zero] at h0
  have hstray := hs _ _ h0
  -- the tail update must have fired, so `readHead s = filled.tail`
  have : readHead s = s.filled.tail := by
    unfold extend at hemp
    split at hemp
    · simp only at hemp
      rw [reseed_filled] at hemp
      exact hemp
    · exact absurd hemp hne
  rw [this] at hstray
  omega

theorem buildSample_wf {P : Packet → Prop} {d : Depack} {s s' : State} {p : Bool} {sm : Sample}
    (h : buildSample d s p = (s', some sm)) (hslot : SlotOk P s) (hs : NonStray s) : WF P d sm := by
  obtain ⟨k, hk0, hk1, hlen, hget, hhead, hdata, hts, _, _⟩ := buildSample_run h
  refine ⟨⟨readHead s, by omega, by omega, fun j hj => (hslot _ _ (hget j hj)).1⟩, ?_,
    hts (nonStray_activeOk h hs), hhead, hdata⟩
  intro q hq
  obtain ⟨j, hj, rfl⟩ := List.getElem_of_mem hq
  exact (hslot _ _ (hget j hj)).2

theorem buildSample_inv {P : Packet → Prop} {d : Depack} (s : State) (p : Bool) (hi : Inv P d s) :
    Inv P d (buildSample d s p).1 ∧ ∀ sm, (buildSample d s p).2 = some sm → WF P d sm := by
  obtain ⟨k, hk, _⟩ := buildSample_progress d s p
  have hwf : ∀ sm, (buildSample d s p).2 = some sm → WF P d sm := by
    intro sm hsm
    exact buildSample_wf (s' := (buildSample d s p).1) (by rw [← hsm]) hi.slot hi.stray
  refine ⟨⟨hk.slotOk hi.slot, hk.nonStray hi.stray, ?_⟩, hwf⟩
  intro i sm' hget
  rcases buildSample_prepared d s p with ⟨_, he⟩ | ⟨sm, hsm, he⟩
  · rw [he] at hget; exact hi.prep i sm' hget
  · rw [he, Buf.get_set] at hget
    split at hget
    · rw [← Option.some.inj hget]; exact hwf sm hsm
    · exact hi.prep i sm' hget

/-! ### the invariant through the purge loop -/

theorem Progress.inv_of_prep {P : Packet → Prop} {d : Depack} {s r : State} {k : Nat} (h : Progress s r k)
    (hi : Inv P d s) (hp : r.preparedSamples = s.preparedSamples) : Inv P d r :=
  ⟨h.slotOk hi.slot, h.nonStray hi.stray, by intro i sm hg; rw [hp] at hg; exact hi.prep i sm hg⟩

theorem releaseHead_inv {P : Packet → Prop} {d : Depack} (s : State) (hi : Inv P d s)
    (hf : s.filled.head ≠ s.filled.tail) : Inv P d (releaseHead s) := by
  have := dist_succ s.filled.head s.filled.tail hf
  exact (releaseN_progress 1 s (by omega)).inv_of_prep hi rfl

theorem purgeStep_inv {P : Packet → Prop} {d : Depack} (s : State) (hi : Inv P d s)
    (hf : s.filled.head ≠ s.filled.tail) : Inv P d (purgeStep d s).1 := by
  have hr : Inv P d (reseed s) := (reseed_progress s).inv_of_prep hi (reseed_preparedSamples s)
  have hrf : (reseed s).filled = s.filled := reseed_filled s
  unfold purgeStep
  simp only
  split
  · obtain ⟨hb, _⟩ := buildSample_inv (reseed s) true hr
    split
    · rename_i s2 sm heq
      rw [heq] at hb; exact hb
    · rename_i s2 heq
      rw [heq] at hb
      split
      · exact hb
      · rename_i hdata
        have hf2 : s2.filled.head ≠ s2.filled.tail := by simpa [Loc.hasData] using hdata
        have hdrop : Inv P d (dropOne s2) :=
          (Progress.of_eq (s := s2) (r := dropOne s2) rfl rfl rfl rfl rfl rfl rfl rfl).inv_of_prep hb rfl
        exact releaseHead_inv (dropOne s2) hdrop hf2
  · exact releaseHead_inv (reseed s) hr (by rw [hrf]; exact hf)

theorem purgeLoop_inv {P : Packet → Prop} {d : Depack} (flush : Bool) : ∀ (n : Nat) (s : State),
    Inv P d s → Inv P d (purgeLoop d flush n s) := by
  intro n
  induction n with
  | zero =>
    intro s hi
    exact ⟨hi.slot, hi.stray, hi.prep⟩
  | succ n ih =>
    intro s hi
    unfold purgeLoop
    split
    · rename_i hcond
      have hstep := purgeStep_inv s hi (purgeCond_hasData hcond)
      split
      · rename_i s2 heq; rw [heq] at hstep; exact ih s2 hstep
      · rename_i s2 heq; rw [heq] at hstep; exact hstep
    · exact hi

theorem purgeConsumed_inv {P : Packet → Prop} {d : Depack} (s : State) (hi : Inv P d s) :
    Inv P d (purgeConsumed s) := by
  obtain ⟨_, hk⟩ := purgeConsumed_progress s
  exact hk.inv_of_prep hi (purgeLoc_same _ s _ false (ringFuel_gt s)).preparedSamples

theorem purgeBuffers_inv {P : Packet → Prop} {d : Depack} (s : State) (flush : Bool) (hi : Inv P d s) :
    Inv P d (purgeBuffers d s flush) :=
  purgeLoop_inv flush _ _ (purgeConsumed_inv s hi)

/-! ### Push stores the packet inside the (grown) filled range -/

/-- what the four outcomes of `compare` say about `pos` -/
theorem compare_cases (l : Loc) (pos : UInt16) :
    (l.compare pos = .void ∧ l.head = l.tail) ∨
    (l.compare pos = .inside ∧ l.head ≠ l.tail ∧ dist l.head pos < dist l.head l.tail) ∨
    (l.compare pos = .before ∧ l.head ≠ l.tail ∧ ¬ dist l.head pos < dist l.head l.tail ∧ pos ≠ l.tail) ∨
    (l.compare pos = .after ∧ l.head ≠ l.tail ∧ ¬ dist l.head pos < dist l.head l.tail) := by
  by_cases e : l.head = l.tail
  · exact Or.inl ⟨(compare_void_iff l pos).mpr e, e⟩
  · by_cases hin : dist l.head pos < dist l.head l.tail
    · exact Or.inr (Or.inl ⟨(compare_inside_iff l pos).mpr hin, e, hin⟩)
    · have hw : ¬ l.within pos = true := by rw [within_iff l pos e]; exact hin
      unfold Loc.compare
      rw [if_neg e, if_neg hw]
      by_cases hb : l.head - pos ≤ pos - l.tail
      · rw [if_pos hb]
        refine Or.inr (Or.inr (Or.inl ⟨rfl, e, hin, ?_⟩))
        intro ept
        subst ept
        have h1 := l.head.toNat_lt; have h2 := l.tail.toNat_lt
        have hn : l.head.toNat ≠ l.tail.toNat := fun x => e (UInt16.toNat_inj.mp x)
        simp [UInt16.le_iff_toNat_le, UInt16.toNat_sub] at hb
        omega
      · rw [if_neg hb]
        exact Or.inr (Or.inr (Or.inr ⟨rfl, e, hin⟩))

theorem insert_inv {P : Packet → Prop} {d : Depack} (s : State) (p : Packet) (hi : Inv P d s) (hp : P p)
    (hring : (insert s p).ringFull = false) : Inv P d (insert s p) := by
  have hslot : ∀ (x : State), x.buffer = s.buffer.set p.seq (some p) → SlotOk P x := by
    intro x hx i q hq
    rw [hx, Buf.get_set] at hq
    split at hq
    · rename_i e; cases hq; exact ⟨e.symm, hp⟩
    · exact hi.slot i q hq
  have hprep : ∀ (x : State), x.preparedSamples = s.preparedSamples → PrepOk (WF P d) x := by
    intro x hx i sm hg; rw [hx] at hg; exact hi.prep i sm hg
  have hget : ∀ (x : State), x.buffer = s.buffer.set p.seq (some p) → ∀ i q, x.buffer.get i = some q →
      i = p.seq ∨ s.buffer.get i = some q := by
    intro x hx i q hq
    rw [hx, Buf.get_set] at hq
    split at hq
    · rename_i e; exact Or.inl e
    · exact Or.inr hq
  unfold insert at hring ⊢
  simp only at hring ⊢
  have hh := s.filled.head.toNat_lt; have ht := s.filled.tail.toNat_lt; have hq := p.seq.toNat_lt
  rcases compare_cases s.filled p.seq with ⟨hc, he⟩ | ⟨hc, he, hin⟩ | ⟨hc, he, hout, hnt⟩ | ⟨hc, he, hout⟩
  · -- void: the buffer was empty
    rw [hc] at hring ⊢
    refine ⟨hslot _ rfl, ?_, hprep _ rfl⟩
    intro i q hq'
    rcases hget _ rfl i q hq' with e | e
    · subst e
      simp only [dist, UInt16.toNat_sub, UInt16.toNat_add]
      simp; omega
    · have := hi.stray i q e
      rw [he, dist_self] at this; omega
  · rw [hc] at hring ⊢
    refine ⟨hslot _ rfl, ?_, hprep _ rfl⟩
    intro i q hq'
    rcases hget _ rfl i q hq' with e | e
    · subst e; exact hin
    · exact hi.stray i q e
  · -- before: `filled.head` moves down to `p.seq`
    rw [hc] at hring ⊢
    refine ⟨hslot _ rfl, ?_, hprep _ rfl⟩
    intro i q hq'
    have hnt' : p.seq.toNat ≠ s.filled.tail.toNat := fun x => hnt (UInt16.toNat_inj.mp x)
    have hne' : s.filled.head.toNat ≠ s.filled.tail.toNat := fun x => he (UInt16.toNat_inj.mp x)
    rcases hget _ rfl i q hq' with e | e
    · subst e
      simp only [dist, UInt16.toNat_sub] at hout ⊢
      simp at hout ⊢; omega
    · have hi' := hi.stray i q e
      have hi2 := i.toNat_lt
      simp only [dist, UInt16.toNat_sub] at hout hi' ⊢
      simp at hout hi' ⊢; omega
  · -- after: `filled.tail` moves up to `p.seq + 1`
    rw [hc] at hring ⊢
    simp only [Bool.or_eq_false_iff, beq_eq_false_iff_ne] at hring
    have hnh : (p.seq + 1).toNat ≠ s.filled.head.toNat := fun x => hring.2 (UInt16.toNat_inj.mp x)
    have hne' : s.filled.head.toNat ≠ s.filled.tail.toNat := fun x => he (UInt16.toNat_inj.mp x)
    refine ⟨hslot _ rfl, ?_, hprep _ rfl⟩
    intro i q hq'
    rcases hget _ rfl i q hq' with e | e
    · subst e
      simp only [dist, UInt16.toNat_sub, UInt16.toNat_add] at hout hnh ⊢
      simp at hout hnh ⊢; omega
    · have hi' := hi.stray i q e
      have hi2 := i.toNat_lt
      simp only [dist, UInt16.toNat_sub, UInt16.toNat_add] at hout hi' hnh ⊢
      simp at hout hi' hnh ⊢; omega

/-! ### Push / Pop / Flush and whole histories -/

theorem purgeBuffers_ringFull (d : Depack) (s : State) (flush : Bool) :
    (purgeBuffers d s flush).ringFull = s.ringFull := by
  obtain ⟨_, h⟩ := purgeBuffers_progress d s flush
  exact h.ringFull

theorem push_inv {P : Packet → Prop} {d : Depack} (s : State) (p : Packet) (hi : Inv P d s) (hp : P p)
    (hring : (push d s p).ringFull = false) : Inv P d (push d s p) := by
  unfold push at hring ⊢
  rw [purgeBuffers_ringFull] at hring
  exact purgeBuffers_inv _ false (insert_inv s p hi hp hring)

theorem flush_inv {P : Packet → Prop} {d : Depack} (s : State) (hi : Inv P d s) : Inv P d (flush d s) :=
  purgeBuffers_inv s true hi

theorem pop_inv {P : Packet → Prop} {d : Depack} (s : State) (hi : Inv P d s) :
    Inv P d (pop d s).1 ∧ ∀ sm, (pop d s).2 = some sm → WF P d sm := by
  obtain ⟨hb, _⟩ := buildSample_inv s false hi
  unfold pop
  simp only
  split
  · exact ⟨hb, by intro sm h; cases h⟩
  · refine ⟨⟨hb.slot, hb.stray, ?_⟩, ?_⟩
    · intro i sm hg
      simp only [Buf.get_set] at hg
      split at hg
      · cases hg
      · exact hb.prep i sm hg
    · intro sm hg
      exact hb.prep _ sm hg

theorem insert_ringFull_mono (s : State) (p : Packet) (h : s.ringFull = true) : (insert s p).ringFull = true := by
  unfold insert
  simp only
  split <;> simp [h]

theorem step_ringFull_mono (d : Depack) (s : State) (op : Op) (h : s.ringFull = true) :
    (step d s op).1.ringFull = true := by
  cases op with
  | push p =>
    simp only [step, push]
    rw [purgeBuffers_ringFull]; exact insert_ringFull_mono s p h
  | flush =>
    simp only [step, flush]
    rw [purgeBuffers_ringFull]; exact h
  | pop =>
    simp only [step]
    obtain ⟨_, hb, _⟩ := buildSample_progress d s false
    unfold pop
    simp only
    split
    · rw [hb.ringFull]; exact h
    · simp only; rw [hb.ringFull]; exact h

theorem run_ringFull_mono (d : Depack) : ∀ (ops : List Op) (s : State), s.ringFull = true →
    (run d s ops).1.ringFull = true
  | [], _, h => h
  | op :: rest, s, h => by
    simp only [run]
    exact run_ringFull_mono d rest _ (step_ringFull_mono d s op h)

theorem new_inv (P : Packet → Prop) (d : Depack) (ml : UInt16) (mlt : UInt32) : Inv P d (State.new ml mlt) :=
  ⟨by intro i p h; simp [State.new] at h, by intro i p h; simp [State.new] at h,
   by intro i sm h; simp [State.new] at h⟩

/-- every sample any Pop of a history returns is well-formed, provided the ring never filled up completely -/
theorem run_wf (P : Packet → Prop) (d : Depack) : ∀ (ops : List Op) (s : State), Inv P d s →
    (∀ p, Op.push p ∈ ops → P p) → (run d s ops).1.ringFull = false →
    ∀ sm ∈ (run d s ops).2, WF P d sm
  | [], _, _, _, _ => by intro sm h; simp [run] at h
  | op :: rest, s, hi, hP, hring => by
    simp only [run] at hring ⊢
    have hr1 : (step d s op).1.ringFull = false := by
      cases hx : (step d s op).1.ringFull with
      | false => rfl
      | true => rw [run_ringFull_mono d rest _ hx] at hring; cases hring
    have hstep : Inv P d (step d s op).1 ∧ ∀ sm, (step d s op).2 = some sm → WF P d sm := by
      cases op with
      | push p =>
        exact ⟨push_inv s p hi (hP p (by simp)) hr1, by intro sm h; simp [step] at h⟩
      | flush => exact ⟨flush_inv s hi, by intro sm h; simp [step] at h⟩
      | pop => exact pop_inv s hi
    have ih := run_wf P d rest (step d s op).1 hstep.1 (fun p hp => hP p (by simp [hp])) hring
    intro sm hsm
    cases hr : (step d s op).2 with
    | none => rw [hr] at hsm; exact ih sm hsm
    | some sm0 =>
      rw [hr] at hsm
      simp only [List.mem_cons] at hsm
      rcases hsm with e | e
      · rw [e]; exact hstep.2 sm0 hr
      · exact ih sm e

end WebrtcVerif.SampleBuilder
