import WebrtcVerif.Model.Rtp
/-
  Lemmas about the RTP model: `parse` only accepts serialized well-formed packets (the converse of
  `Rtp.parse_serialize`).
-/
namespace WebrtcVerif.Rtp
open WebrtcVerif.Bytes

theorem b_toNat_self (x : Byte) : b x.toNat = x := by simp [b]

theorem be16_rd16be (x y : Byte) : be16 (rd16be x y) = [x, y] := by
  have := x.toNat_lt; have := y.toNat_lt
  simp only [be16, List.cons.injEq, and_true]
  constructor <;> apply UInt8.toNat_inj.mp <;> simp [rd16be] <;> omega

theorem be32_rd32be (x y z w : Byte) : be32 (rd32be x y z w) = [x, y, z, w] := by
  have := x.toNat_lt; have := y.toNat_lt; have := z.toNat_lt; have := w.toNat_lt
  simp only [be32, List.cons.injEq, and_true]
  refine ⟨?_, ?_, ?_, ?_⟩ <;> apply UInt8.toNat_inj.mp <;> simp [rd32be] <;> omega

theorem parseCsrcs_inv (k : Nat) : ∀ (s : Bs) (cs : List Nat) (r : Bs), parseCsrcs k s = some (cs, r) →
    s = csrcBytes cs ++ r ∧ cs.length = k ∧ ∀ c ∈ cs, c < 4294967296 := by
  induction k with
  | zero => intro s cs r h; simp [parseCsrcs] at h; obtain ⟨rfl, rfl⟩ := h; simp [csrcBytes]
  | succ k ih =>
    intro s cs r h
    match s, h with
    | x :: y :: z :: w :: rest, h =>
      simp only [parseCsrcs] at h
      cases hr : parseCsrcs k rest with
      | none => simp [hr] at h
      | some v =>
        obtain ⟨cs', r'⟩ := v
        simp only [hr, Option.some.injEq, Prod.mk.injEq] at h
        obtain ⟨rfl, rfl⟩ := h
        obtain ⟨h1, h2, h3⟩ := ih rest cs' r' hr
        refine ⟨?_, by simp [h2], ?_⟩
        · simp [csrcBytes, be32_rd32be, h1]
        · intro c hc
          simp only [List.mem_cons] at hc
          rcases hc with rfl | hc
          · exact rd32be_lt x y z w
          · exact h3 c hc
    | [], h | [_], h | [_, _], h | [_, _, _], h => simp [parseCsrcs] at h

theorem dropLast_append_of_getLast? (l : Bs) (c : Byte) (h : l.getLast? = some c) : l.dropLast ++ [c] = l := by
  have hne : l ≠ [] := by intro h0; simp [h0] at h
  have := List.getLast?_eq_some_getLast hne
  rw [this] at h
  cases h
  exact List.dropLast_concat_getLast hne

theorem parseExt_inv (hasX : Bool) (s : Bs) (e : Option Ext) (r : Bs) (h : parseExt hasX s = some (e, r)) :
    s = extBytes e ++ r ∧ e.isSome = hasX ∧ ∀ x, e = some x → x.WF := by
  cases hasX with
  | false =>
    simp [parseExt] at h; obtain ⟨rfl, rfl⟩ := h; simp [extBytes]
  | true =>
    match s, h with
    | p0 :: p1 :: l0 :: l1 :: r0, h =>
      simp only [parseExt, if_true] at h
      split at h
      · rename_i hle
        simp only [Option.some.injEq, Prod.mk.injEq] at h
        obtain ⟨rfl, rfl⟩ := h
        have hlen : (List.take (4 * rd16be l0 l1) r0).length = 4 * rd16be l0 l1 := by
          simp [List.length_take]; omega
        have hw : 4 * rd16be l0 l1 / 4 = rd16be l0 l1 := by omega
        refine ⟨?_, rfl, ?_⟩
        · simp [extBytes, hlen, hw, be16_rd16be]
        · intro x hx
          cases hx
          exact ⟨rd16be_lt p0 p1, by simp only [hlen]; omega, by simp only [hlen, hw]; exact rd16be_lt l0 l1⟩
      · cases h
    | [], h | [_], h | [_, _], h | [_, _, _], h => simp [parseExt] at h

theorem parsePad_inv (hasP : Bool) (s pl : Bs) (f : Option Bs) (h : parsePad hasP s = some (pl, f)) :
    s = pl ++ padBytes f ∧ f.isSome = hasP ∧ ∀ x, f = some x → x.length < 255 := by
  cases hasP with
  | false => simp [parsePad] at h; obtain ⟨rfl, rfl⟩ := h; simp [padBytes]
  | true =>
    simp only [parsePad, if_true] at h
    cases hl : s.getLast? with
    | none => simp [hl] at h
    | some c =>
      simp only [hl] at h
      split at h
      · rename_i hc
        simp only [Option.some.injEq, Prod.mk.injEq] at h
        obtain ⟨rfl, rfl⟩ := h
        have hclt := c.toNat_lt
        have hD : (s.drop (s.length - c.toNat)).getLast? = some c := by
          rw [List.getLast?_drop, if_neg (by omega), hl]
        have hDl : (s.drop (s.length - c.toNat)).length = c.toNat := by simp [List.length_drop]; omega
        have hcat := dropLast_append_of_getLast? _ c hD
        have hdl : ((s.drop (s.length - c.toNat)).dropLast).length = c.toNat - 1 := by
          simp [List.length_dropLast, hDl]
        refine ⟨?_, rfl, ?_⟩
        · simp only [padBytes, hdl]
          rw [show c.toNat - 1 + 1 = c.toNat by omega, b_toNat_self, hcat, List.take_append_drop]
        · intro x hx; cases hx; rw [hdl]; omega
      · cases h

/-- what `parse` accepts is exactly a serialized well-formed packet -/
theorem serialize_parse (s : Bs) (p : Packet) (h : parse s = some p) : serialize p = s ∧ p.WF := by
  match s, h with
  | f0 :: f1 :: s0 :: s1 :: t0 :: t1 :: t2 :: t3 :: c0 :: c1 :: c2 :: c3 :: rest, h =>
    simp only [parse] at h
    cases h1 : parseCsrcs (f0.toNat % 16) rest with
    | none => simp [h1] at h
    | some v1 =>
      obtain ⟨csrcs, r1⟩ := v1
      simp only [h1] at h
      cases h2 : parseExt (f0.toNat / 16 % 2 == 1) r1 with
      | none => simp [h2] at h
      | some v2 =>
        obtain ⟨ext, r2⟩ := v2
        simp only [h2] at h
        cases h3 : parsePad (f0.toNat / 32 % 2 == 1) r2 with
        | none => simp [h3] at h
        | some v3 =>
          obtain ⟨payload, pad⟩ := v3
          simp only [h3, Option.some.injEq] at h
          subst h
          obtain ⟨e1, e2, e3⟩ := parseCsrcs_inv _ _ _ _ h1
          obtain ⟨x1, x2, x3⟩ := parseExt_inv _ _ _ _ h2
          obtain ⟨p1, p2, p3⟩ := parsePad_inv _ _ _ _ h3
          have hf0 := f0.toNat_lt
          have hf1 := f1.toNat_lt
          refine ⟨?_, ?_⟩
          · have hb0 : b (f0.toNat / 64 * 64 + (if pad.isSome then 32 else 0) + (if ext.isSome then 16 else 0)
                + csrcs.length) = f0 := by
              apply UInt8.toNat_inj.mp
              rw [p2, x2, e2]
              simp only [b_toNat, beq_iff_eq]
              split <;> split <;> omega
            have hb1 : b ((if (f1.toNat / 128 == 1) = true then 128 else 0) + f1.toNat % 128) = f1 := by
              apply UInt8.toNat_inj.mp
              simp only [b_toNat, beq_iff_eq]
              split <;> omega
            have h16 := be16_rd16be s0 s1
            have h32a := be32_rd32be t0 t1 t2 t3
            have h32b := be32_rd32be c0 c1 c2 c3
            simp only [be16, be32, List.cons.injEq, and_true] at h16 h32a h32b
            simp only [serialize, byte0, byte1, hb0, hb1, h16, h32a, h32b, e1, x1, p1]
          · exact ⟨by show f0.toNat / 64 < 4; omega, by show f1.toNat % 128 < 128; omega, rd16be_lt _ _,
              rd32be_lt _ _ _ _, rd32be_lt _ _ _ _, by show csrcs.length ≤ 15; omega, e3, x3, p3⟩
  | [], h | [_], h | [_, _], h | [_, _, _], h | [_, _, _, _], h | [_, _, _, _, _], h | [_, _, _, _, _, _], h
  | [_, _, _, _, _, _, _], h | [_, _, _, _, _, _, _, _], h | [_, _, _, _, _, _, _, _, _], h
  | [_, _, _, _, _, _, _, _, _, _], h | [_, _, _, _, _, _, _, _, _, _, _], h => simp [parse] at h

end WebrtcVerif.Rtp
