import WebrtcVerif.Model.AnnexB
/-! Helper lemmas for C34 (and C37) about `WebrtcVerif.Model.AnnexB` — core Lean only. -/
namespace WebrtcVerif.AnnexB
open WebrtcVerif.Bytes

/-! ### the byte machine on a unit body -/

/-- zero count after the bytes of a unit in which the machine sees no start code (`none` if it sees one) -/
def bodyZ : Nat → Bs → Option Nat
  | z, [] => some z
  | z, x :: t =>
    if x = 0 then bodyZ (z + 1) t
    else if x = 1 then (if 2 ≤ z then none else bodyZ 0 t)
    else bodyZ 0 t

theorem scan_cons_notfound (c : Codec) (sei : Bool) (nr : Bs) (z : Nat) (x : Byte) (rest : Bs) (z' : Nat)
    (h : processByte nr z x = (false, nr, z')) :
    scan c sei nr z (x :: rest) = scan c sei (x :: nr) z' rest := by
  rw [scan, h]

theorem scan_body (c : Codec) (sei : Bool) (n : Bs) : ∀ (nr : Bs) (z z' : Nat) (rest : Bs),
    bodyZ z n = some z' → scan c sei nr z (n ++ rest) = scan c sei (n.reverse ++ nr) z' rest := by
  induction n with
  | nil => intro nr z z' rest h; simp [bodyZ] at h; simp [h]
  | cons x t ih =>
    intro nr z z' rest h
    unfold bodyZ at h
    simp only [List.cons_append, List.reverse_cons, List.append_assoc]
    split at h
    · rename_i hx
      rw [scan_cons_notfound c sei nr z x _ (z + 1) (by simp [processByte, hx])]
      exact ih _ _ _ _ h
    · split at h
      · rename_i hx0 hx1
        split at h
        · cases h
        · rename_i hz
          rw [scan_cons_notfound c sei nr z x _ 0 (by simp [processByte, hx1, hz])]
          exact ih _ _ _ _ h
      · rename_i hx0 hx1
        rw [scan_cons_notfound c sei nr z x _ 0 (by simp [processByte, hx0, hx1])]
        exact ih _ _ _ _ h

theorem bodyZ_of_noInfix (n : Bs) : ∀ z, ¬ [0, 0, 1] <:+: (List.replicate z (0 : Byte) ++ n) →
    ∃ z', bodyZ z n = some z' := by
  induction n with
  | nil => intro z _; exact ⟨z, rfl⟩
  | cons x t ih =>
    intro z h
    have hsuf : ¬ [0, 0, 1] <:+: (List.replicate 0 (0 : Byte) ++ t) := by
      intro hi
      apply h
      simp only [List.replicate_zero, List.nil_append] at hi
      exact List.IsInfix.trans hi ⟨List.replicate z 0 ++ [x], [], by simp⟩
    unfold bodyZ
    split
    · rename_i hx
      subst hx
      apply ih
      rw [List.replicate_succ', List.append_assoc]
      exact h
    · split
      · rename_i hx1
        split
        · rename_i hz
          exfalso
          apply h
          subst hx1
          refine ⟨List.replicate (z - 2) 0, t, ?_⟩
          have : z = (z - 2) + 2 := by omega
          rw [this, ← List.replicate_append_replicate]
          simp
        · exact ih 0 hsuf
      · exact ih 0 hsuf

theorem bodyZ_zero (n : Bs) : ∀ z z', bodyZ z n = some z' → n.getLast? ≠ some 0 → (n = [] → z = 0) → z' = 0 := by
  induction n with
  | nil => intro z z' h _ hz; simp [bodyZ] at h; rw [← h]; exact hz rfl
  | cons x t ih =>
    intro z z' h hl _
    cases t with
    | nil =>
      have hx : x ≠ 0 := by intro hx; simp [hx] at hl
      simp [bodyZ, hx] at h
      split at h
      · split at h
        · cases h
        · injection h with h; exact h.symm
      · injection h with h; exact h.symm
    | cons y t' =>
      have hl' : (y :: t').getLast? ≠ some 0 := by simpa [List.getLast?_cons_cons] using hl
      unfold bodyZ at h
      split at h
      · exact ih _ _ h hl' (by simp)
      · split at h
        · split at h
          · cases h
          · exact ih _ _ h hl' (by simp)
        · exact ih _ _ h hl' (by simp)

/-- "no emulated start code, no trailing zero byte" without the non-emptiness part -/
def WFtail (n : Bs) : Prop := ¬ [0, 0, 1] <:+: n ∧ n.getLast? ≠ some 0

theorem WFtail_tail (d : Byte) (t : Bs) (h : WFtail (d :: t)) : WFtail t := by
  refine ⟨fun hi => h.1 (List.IsInfix.trans hi ⟨[d], [], by simp⟩), ?_⟩
  cases t with
  | nil => simp
  | cons y t' => simpa [List.getLast?_cons_cons] using h.2

theorem bodyZ_WFtail (n : Bs) (h : WFtail n) : bodyZ 0 n = some 0 := by
  obtain ⟨z', hz⟩ := bodyZ_of_noInfix n 0 (by simpa using h.1)
  rw [hz, bodyZ_zero n 0 z' hz h.2 (fun _ => rfl)]

theorem skip_eq (c : Codec) (sei : Bool) (d : Bs) (s : Bool) (h : isSEI? c d = some s) :
    skip c sei d = (!sei && s) := by
  cases s <;> simp [skip, h]

/-- a start code after a non-empty unit: the unit is complete -/
theorem scan_startCode (c : Codec) (sei : Bool) (nr : Bs) (w : Bool) (rest : Bs) (hne : nr ≠ []) :
    scan c sei nr 0 (startCode w ++ rest) =
      if skip c sei nr.reverse then scan c sei [] 0 rest else .found nr 0 rest := by
  obtain ⟨s, hs⟩ := isSEI?_ne_nil c nr.reverse (by simpa using hne)
  have hlen : 0 < nr.length := List.length_pos_iff.mpr hne
  rw [skip_eq c sei _ s hs]
  cases w
  · have h1 : processByte nr 0 0 = (false, nr, 1) := by simp [processByte]
    have h2 : processByte (0 :: nr) 1 0 = (false, 0 :: nr, 2) := by simp [processByte]
    have h3 : processByte (0 :: 0 :: nr) 2 1 = (true, nr, 0) := by
      simp [processByte, prefixZeros]; omega
    simp only [startCode, Bool.false_eq_true, if_false, List.cons_append, List.nil_append]
    rw [scan_cons_notfound c sei _ _ _ _ _ h1, scan_cons_notfound c sei _ _ _ _ _ h2, scan, h3]
    simp only [hs]
  · have h1 : processByte nr 0 0 = (false, nr, 1) := by simp [processByte]
    have h2 : processByte (0 :: nr) 1 0 = (false, 0 :: nr, 2) := by simp [processByte]
    have h3 : processByte (0 :: 0 :: nr) 2 0 = (false, 0 :: 0 :: nr, 3) := by simp [processByte]
    have h4 : processByte (0 :: 0 :: 0 :: nr) 3 1 = (true, nr, 0) := by
      simp [processByte, prefixZeros]; omega
    simp only [startCode, if_true, List.cons_append, List.nil_append]
    rw [scan_cons_notfound c sei _ _ _ _ _ h1, scan_cons_notfound c sei _ _ _ _ _ h2,
      scan_cons_notfound c sei _ _ _ _ _ h3, scan, h4]
    simp only [hs]

/-- the machine in the middle of a unit `p ++ q` (`p` consumed): up to and including the next start code -/
theorem scan_unit (c : Codec) (sei : Bool) (p q : Bs) (w : Bool) (rest : Bs)
    (hq : bodyZ 0 q = some 0) (hne : p ++ q ≠ []) :
    scan c sei p.reverse 0 (q ++ (startCode w ++ rest)) =
      if skip c sei (p ++ q) then scan c sei [] 0 rest else .found (p ++ q).reverse 0 rest := by
  rw [scan_body c sei q _ 0 0 _ hq]
  have : q.reverse ++ p.reverse = (p ++ q).reverse := by simp
  rw [this, scan_startCode c sei _ w rest (by intro h; apply hne; simp at h; simp [h.1, h.2])]
  simp

/-- … and up to the end of the stream -/
theorem scan_last (c : Codec) (sei : Bool) (p q : Bs) (hq : bodyZ 0 q = some 0) :
    scan c sei p.reverse 0 q = .more (p ++ q).reverse 0 := by
  have := scan_body c sei q p.reverse 0 0 [] hq
  simp only [List.append_nil] at this
  rw [this]
  simp [scan]

/-! ### a whole framed sequence on a flat stream (everything already in `readBuffer`) -/

/-- the reader between two units of a flat stream: `p` = bytes of the current unit already in nalBuffer -/
def mid (c : Codec) (sei : Bool) (p buf : Bs) : Reader :=
  { codec := c, includeSEI := sei, src := [], readBuffer := buf, nalRev := p.reverse, zeros := 0,
    prefixParsed := true }

theorem loop_nil (c : Codec) (sei : Bool) (nr : Bs) (z : Nat) (buf : Bs) :
    loop c sei nr z buf [] =
      match scan c sei nr z buf with
      | .panic => .panic
      | .found nr' z' rest => .found nr' z' rest []
      | .more nr' z' => .stop nr' z' [] := by
  cases h : scan c sei nr z buf <;> simp [loop, h]

theorem nextNAL_mid (c : Codec) (sei : Bool) (p buf : Bs) :
    nextNAL (mid c sei p buf) = body c sei 0 p.reverse buf [] := by
  simp [nextNAL, mid]

theorem nalOf_data (c : Codec) (d : Bs) : (nalOf c d).data = d := by
  unfold nalOf
  match c, d with
  | .h264, [] => simp [parseHeader, newNal]
  | .h264, f :: t => simp [parseHeader]
  | .h265, [] => simp [parseHeader, newNal]
  | .h265, [f] => simp [parseHeader, newNal]
  | .h265, f :: s :: t => simp [parseHeader]

theorem parseHeader_nalOf (c : Codec) (d : Bs) (h : d ≠ []) : parseHeader c d = some (nalOf c d) := by
  obtain ⟨n, hn⟩ := parseHeader_ne_nil c d h
  simp [nalOf, hn]

theorem finish_keep (c : Codec) (sei : Bool) (d : Bs) (z : Nat) (buf : Bs) (src : List Ev)
    (hne : d ≠ []) (hk : skip c sei d = false) :
    finish c sei d.reverse z buf src =
      (.nal (nalOf c d), { codec := c, includeSEI := sei, src := src, readBuffer := buf, nalRev := [],
                           zeros := z, prefixParsed := true }) := by
  obtain ⟨s, hs⟩ := isSEI?_ne_nil c d hne
  rw [skip_eq c sei d s hs] at hk
  have hl : d.length ≠ 0 := by simpa using hne
  simp [finish, finishOut, hl, hs, hk, parseHeader_nalOf c d hne]

theorem finish_skip (c : Codec) (sei : Bool) (d : Bs) (z : Nat) (buf : Bs) (src : List Ev)
    (hk : skip c sei d = true) :
    finish c sei d.reverse z buf src =
      (.err .eof, { codec := c, includeSEI := sei, src := src, readBuffer := buf, nalRev := [],
                    zeros := z, prefixParsed := true }) := by
  unfold finish finishOut
  simp only [List.reverse_reverse]
  split
  · rfl
  · rename_i hl
    have hne : d ≠ [] := by intro h; simp [h] at hl
    obtain ⟨s, hs⟩ := isSEI?_ne_nil c d hne
    rw [skip_eq c sei d s hs] at hk
    simp [hs, hk]

theorem readAll_end (c : Codec) (sei : Bool) : readAll (mid c sei [] []) = ([], .err .eof) := by
  rw [readAll_eq, nextNAL_mid]
  simp [body, loop, scan, finish, finishOut]

theorem readAll_mid (c : Codec) (sei : Bool) : ∀ (units : List (Bool × Bs)) (p q : Bs),
    bodyZ 0 q = some 0 → p ++ q ≠ [] → (∀ u ∈ units, u.2 ≠ [] ∧ WFtail u.2) →
    readAll (mid c sei p (q ++ frame units)) =
      ((((p ++ q) :: units.map (·.2)).filter (fun d => !skip c sei d)).map (nalOf c), .err .eof) := by
  intro units
  induction units with
  | nil =>
    intro p q hq hne _
    rw [readAll_eq, nextNAL_mid]
    simp only [frame, List.append_nil, body, loop_nil, scan_last c sei p q hq]
    cases hk : skip c sei (p ++ q)
    · rw [finish_keep c sei (p ++ q) 0 [] [] hne hk]
      have := readAll_end c sei
      simp only [mid, List.reverse_nil] at this
      simp [this, hk]
    · rw [finish_skip c sei (p ++ q) 0 [] [] hk]
      simp [hk]
  | cons u us ih =>
    intro p q hq hne hwf
    obtain ⟨w, n2⟩ := u
    have hn2 := hwf (w, n2) (by simp)
    have hus : ∀ u ∈ us, u.2 ≠ [] ∧ WFtail u.2 := fun u hu => hwf u (by simp [hu])
    have ih' := ih [] n2 (bodyZ_WFtail n2 hn2.2) (by simpa using hn2.1) hus
    have hscan := scan_unit c sei p q w (n2 ++ frame us) hq hne
    have hbuf : q ++ frame ((w, n2) :: us) = q ++ (startCode w ++ (n2 ++ frame us)) := by
      simp [frame]
    cases hk : skip c sei (p ++ q)
    · -- kept: this call returns the unit
      rw [readAll_eq, nextNAL_mid, hbuf]
      simp only [body, loop_nil, hscan, hk, Bool.false_eq_true, if_false]
      rw [finish_keep c sei (p ++ q) 0 _ [] hne hk]
      simp only [mid, List.reverse_nil, List.nil_append] at ih'
      simp [ih', hk]
    · -- skipped inside the same call: same as starting at the next unit
      have hnext : nextNAL (mid c sei p (q ++ frame ((w, n2) :: us))) = nextNAL (mid c sei [] (n2 ++ frame us)) := by
        rw [nextNAL_mid, nextNAL_mid, hbuf]
        simp only [body, loop_nil, hscan, hk, if_true, List.reverse_nil]
      rw [readAll_eq, hnext, ← readAll_eq, ih']
      simp [hk]

/-- reading a framed sequence of well-formed units that is completely buffered -/
theorem readAll_frame (c : Codec) (sei : Bool) (units : List (Bool × Bs))
    (hwf : ∀ u ∈ units, u.2 ≠ [] ∧ WFtail u.2) :
    readAll { codec := c, includeSEI := sei, src := [], readBuffer := frame units, nalRev := [], zeros := 0,
              prefixParsed := false } =
      (((units.map (·.2)).filter (fun d => !skip c sei d)).map (nalOf c), .err .eof) := by
  cases units with
  | nil => rw [readAll_eq]; simp [nextNAL, read, fill, frame]
  | cons u us =>
    obtain ⟨w, n⟩ := u
    have hn := hwf (w, n) (by simp)
    have hus : ∀ u ∈ us, u.2 ≠ [] ∧ WFtail u.2 := fun u hu => hwf u (by simp [hu])
    cases n with
    | nil => exact absurd rfl hn.1
    | cons d t =>
      cases w
      · have hnext : nextNAL { codec := c, includeSEI := sei, src := [], readBuffer := frame ((false, d :: t) :: us),
                               nalRev := [], zeros := 0, prefixParsed := false }
            = nextNAL (mid c sei [d] (t ++ frame us)) := by
          rw [nextNAL_mid]
          simp [nextNAL, read, fill, frame, startCode, startsWithPrefix]
        rw [readAll_eq, hnext, ← readAll_eq,
          readAll_mid c sei us [d] t (bodyZ_WFtail t (WFtail_tail d t hn.2)) (by simp) hus]
        simp
      · have hnext : nextNAL { codec := c, includeSEI := sei, src := [], readBuffer := frame ((true, d :: t) :: us),
                               nalRev := [], zeros := 0, prefixParsed := false }
            = nextNAL (mid c sei [] ((d :: t) ++ frame us)) := by
          rw [nextNAL_mid]
          simp [nextNAL, read, fill, frame, startCode, startsWithPrefix]
        rw [readAll_eq, hnext, ← readAll_eq,
          readAll_mid c sei us [] (d :: t) (bodyZ_WFtail _ hn.2) (by simp) hus]
        simp

/-! ### chunking: a clean stream behaves like its concatenation -/

theorem scan_append (c : Codec) (sei : Bool) (a : Bs) : ∀ (nr : Bs) (z : Nat) (b' : Bs),
    scan c sei nr z (a ++ b') =
      match scan c sei nr z a with
      | .more nr' z' => scan c sei nr' z' b'
      | .found nr' z' rest => .found nr' z' (rest ++ b')
      | .panic => .panic := by
  induction a with
  | nil => intro nr z b'; simp [scan]
  | cons x t ih =>
    intro nr z b'
    simp only [List.cons_append]
    rw [scan, scan]
    split
    · split
      · rfl
      · split
        · exact ih _ _ _
        · rfl
    · exact ih _ _ _

theorem clean_cons_data (x : Byte) (ch : Bs) (src : List Ev) : clean (.data (x :: ch) :: src) = clean src := rfl

theorem clean_cases (ev : Ev) (src : List Ev) (h : clean (ev :: src) = true) :
    ∃ x ch, ev = .data (x :: ch) ∧ clean src = true := by
  match ev, h with
  | .data (x :: ch), h => exact ⟨x, ch, rfl, h⟩

theorem fill_clean_ok (k : Nat) : ∀ (src : List Ev) (buf : Bs), clean src = true → k ≤ (buf ++ flat src).length →
    ∃ buf' src', fill k buf src = .ok buf' src' ∧ buf' ++ flat src' = buf ++ flat src ∧ clean src' = true ∧
      k ≤ buf'.length := by
  intro src
  induction src with
  | nil =>
    intro buf _ hk
    refine ⟨buf, [], ?_, rfl, rfl, by simpa [flat] using hk⟩
    simp only [flat, List.append_nil] at hk
    simp [fill, hk]
  | cons ev src ih =>
    intro buf hc hk
    obtain ⟨x, ch, rfl, hc'⟩ := clean_cases ev src hc
    by_cases hb : k ≤ buf.length
    · exact ⟨buf, _, by simp [fill, hb], rfl, hc, hb⟩
    · obtain ⟨buf', src', h1, h2, h3, h4⟩ := ih (buf ++ x :: ch) hc' (by simpa [flat] using hk)
      refine ⟨buf', src', ?_, ?_, h3, h4⟩
      · rw [fill, if_neg hb]; exact h1
      · rw [h2]; simp [flat]

theorem fill_clean_err (k : Nat) : ∀ (src : List Ev) (buf : Bs), clean src = true → (buf ++ flat src).length < k →
    fill k buf src = .err .eof (buf ++ flat src) [] := by
  intro src
  induction src with
  | nil =>
    intro buf _ hk
    simp only [flat, List.append_nil] at hk ⊢
    simp [fill]; omega
  | cons ev src ih =>
    intro buf hc hk
    obtain ⟨x, ch, rfl, hc'⟩ := clean_cases ev src hc
    have hb : ¬ k ≤ buf.length := by simp at hk; omega
    rw [fill, if_neg hb]
    rw [ih (buf ++ x :: ch) hc' (by simpa [flat] using hk)]
    simp [flat]

/-- the loop over a clean stream, against the byte machine over its concatenation -/
theorem loop_clean (c : Codec) (sei : Bool) : ∀ (src : List Ev) (nr : Bs) (z : Nat) (buf : Bs), clean src = true →
    match scan c sei nr z (buf ++ flat src) with
    | .found nr' z' rest => ∃ buf' src', loop c sei nr z buf src = .found nr' z' buf' src' ∧
        buf' ++ flat src' = rest ∧ clean src' = true
    | .more nr' z' => loop c sei nr z buf src = .stop nr' z' []
    | .panic => loop c sei nr z buf src = .panic := by
  intro src
  induction src with
  | nil =>
    intro nr z buf _
    simp only [flat, List.append_nil]
    rw [loop_nil]
    cases hs : scan c sei nr z buf with
    | panic => simp
    | found nr' z' rest => exact ⟨rest, [], rfl, by simp [flat], rfl⟩
    | more nr' z' => simp
  | cons ev src ih =>
    intro nr z buf hc
    obtain ⟨x, ch, rfl, hc'⟩ := clean_cases ev src hc
    have hflat : buf ++ flat (.data (x :: ch) :: src) = buf ++ ((x :: ch) ++ flat src) := by simp [flat]
    rw [hflat, scan_append]
    rw [loop]
    cases hs : scan c sei nr z buf with
    | panic => simp
    | found nr' z' rest =>
      simp only
      exact ⟨rest, _, rfl, by simp [flat], hc⟩
    | more nr' z' =>
      simp only
      exact ih nr' z' (x :: ch) hc'

theorem flatten_flat (r : Reader) (h : r.src = []) : r.flatten = r := by
  cases r; simp only at h; subst h; simp [Reader.flatten, flat]

theorem body_clean (c : Codec) (sei : Bool) (z : Nat) (nr buf : Bs) (src : List Ev) (hc : clean src = true) :
    ∃ r', body c sei z nr buf src = ((body c sei z nr (buf ++ flat src) []).1, r') ∧
      r'.flatten = (body c sei z nr (buf ++ flat src) []).2 ∧ clean r'.src = true := by
  have h := loop_clean c sei src nr z buf hc
  unfold body
  rw [loop_nil]
  cases hs : scan c sei nr z (buf ++ flat src) with
  | panic =>
    rw [hs] at h; simp only at h
    rw [h]
    exact ⟨_, rfl, by simp [Reader.flatten, flat], rfl⟩
  | found nr' z' rest =>
    rw [hs] at h; simp only at h
    obtain ⟨buf', src', h1, h2, h3⟩ := h
    rw [h1]
    refine ⟨_, rfl, ?_, h3⟩
    simp [finish, Reader.flatten, h2]
  | more nr' z' =>
    rw [hs] at h; simp only at h
    rw [h]
    exact ⟨_, rfl, by simp [finish, Reader.flatten, flat], rfl⟩

/-- one `NextNAL` call on a clean stream returns what it returns on the concatenation, and leaves a reader
    that again corresponds to the flat one -/
theorem nextNAL_clean (r : Reader) (hc : clean r.src = true) :
    ∃ r', nextNAL r = ((nextNAL r.flatten).1, r') ∧ r'.flatten = (nextNAL r.flatten).2 ∧ clean r'.src = true := by
  unfold nextNAL
  by_cases hp : r.prefixParsed = true
  · simp only [hp, if_true, Reader.flatten]
    exact body_clean _ _ _ _ _ _ hc
  · simp only [hp, Reader.flatten, Bool.false_eq_true, if_false]
    by_cases hk : 4 ≤ (r.readBuffer ++ flat r.src).length
    · obtain ⟨buf', src', h1, h2, h3, h4⟩ := fill_clean_ok 4 r.src r.readBuffer hc hk
      have hflatfill : fill 4 (r.readBuffer ++ flat r.src) [] = .ok (r.readBuffer ++ flat r.src) [] := by
        simp only [fill]; rw [if_pos hk]
      have htake : (r.readBuffer ++ flat r.src).take 4 = buf'.take 4 := by
        rw [← h2, List.take_append_of_le_length h4]
      have hdrop : (r.readBuffer ++ flat r.src).drop 4 = buf'.drop 4 ++ flat src' := by
        rw [← h2, List.drop_append_of_le_length h4]
      simp only [read, h1, hflatfill, htake, hdrop]
      cases hpre : startsWithPrefix (buf'.take 4) with
      | err e =>
        simp only
        exact ⟨_, rfl, by simp, h3⟩
      | ok extra =>
        simp only
        exact body_clean _ _ _ _ _ _ h3
    · have hlt : (r.readBuffer ++ flat r.src).length < 4 := by omega
      have h1 := fill_clean_err 4 r.src r.readBuffer hc hlt
      have hflatfill : fill 4 (r.readBuffer ++ flat r.src) [] = .err .eof (r.readBuffer ++ flat r.src) [] := by
        simp only [fill]; rw [if_neg hk]
      simp only [read, h1, hflatfill]
      exact ⟨_, rfl, by simp [flat], rfl⟩

/-- reading to the end: a clean stream gives exactly what its concatenation gives -/
theorem readAll_clean (r : Reader) (hc : clean r.src = true) : readAll r = readAll r.flatten := by
  generalize hn : r.size = n
  induction n using Nat.strongRecOn generalizing r with
  | _ n ih =>
    obtain ⟨r', h1, h2, h3⟩ := nextNAL_clean r hc
    rw [readAll_eq r, readAll_eq r.flatten, h1]
    cases ho : (nextNAL r.flatten).1 with
    | nal nal =>
      have hprog : r'.size < r.size := nextNAL_progress r nal r' (by rw [h1, ho])
      have hflat : nextNAL r.flatten = (.nal nal, (nextNAL r.flatten).2) := by rw [← ho]
      rw [hflat]
      simp only
      rw [ih r'.size (by omega) r' h3 rfl, h2]
    | err e =>
      have hflat : nextNAL r.flatten = (.err e, (nextNAL r.flatten).2) := by rw [← ho]
      rw [hflat]
    | panic =>
      have hflat : nextNAL r.flatten = (.panic, (nextNAL r.flatten).2) := by rw [← ho]
      rw [hflat]
/-! ### header bits as arithmetic on the header bytes (each fact is checked on all 256 byte values) -/

theorem u8_forall (P : UInt8 → Prop) (h : ∀ k : Fin 256, P (UInt8.ofNat k.val)) (f : UInt8) : P f := by
  have := h ⟨f.toNat, f.toNat_lt⟩
  simpa using this

set_option maxRecDepth 100000 in
theorem u8_low5 (f : UInt8) : ((f &&& 0x1F) >>> 0).toNat = f.toNat % 32 :=
  u8_forall (fun f => ((f &&& 0x1F) >>> 0).toNat = f.toNat % 32) (by decide) f

set_option maxRecDepth 100000 in
theorem u8_refidc (f : UInt8) : ((f &&& 0x60) >>> 5).toNat = f.toNat / 32 % 4 :=
  u8_forall (fun f => ((f &&& 0x60) >>> 5).toNat = f.toNat / 32 % 4) (by decide) f

set_option maxRecDepth 100000 in
theorem u8_forbidden264 (f : UInt8) : (((f &&& 0x80) >>> 7) == 1) = decide (128 ≤ f.toNat) :=
  u8_forall (fun f => (((f &&& 0x80) >>> 7) == 1) = decide (128 ≤ f.toNat)) (by decide) f

set_option maxRecDepth 100000 in
theorem u8_forbidden265 (f : UInt8) : ((f &&& 0x80) != 0) = decide (128 ≤ f.toNat) :=
  u8_forall (fun f => ((f &&& 0x80) != 0) = decide (128 ≤ f.toNat)) (by decide) f

set_option maxRecDepth 100000 in
theorem u8_type265 (f : UInt8) : ((f &&& 0x7E) >>> 1).toNat = f.toNat / 2 % 64 :=
  u8_forall (fun f => ((f &&& 0x7E) >>> 1).toNat = f.toNat / 2 % 64) (by decide) f

set_option maxRecDepth 100000 in
theorem u8_tid (s : UInt8) : (s &&& 0x07).toNat = s.toNat % 8 :=
  u8_forall (fun s => (s &&& 0x07).toNat = s.toNat % 8) (by decide) s

set_option maxRecDepth 100000 in
theorem u8_layer_hi (f : UInt8) : ((f &&& 0x01) <<< 5) = UInt8.ofNat (f.toNat % 2 * 32) :=
  u8_forall (fun f => ((f &&& 0x01) <<< 5) = UInt8.ofNat (f.toNat % 2 * 32)) (by decide) f

set_option maxRecDepth 100000 in
theorem u8_layer_lo0 (s : UInt8) : ((0 : UInt8) ||| ((s &&& 0xF8) >>> 3)).toNat = s.toNat / 8 :=
  u8_forall (fun s => ((0 : UInt8) ||| ((s &&& 0xF8) >>> 3)).toNat = s.toNat / 8) (by decide) s

set_option maxRecDepth 100000 in
theorem u8_layer_lo1 (s : UInt8) : ((32 : UInt8) ||| ((s &&& 0xF8) >>> 3)).toNat = 32 + s.toNat / 8 :=
  u8_forall (fun s => ((32 : UInt8) ||| ((s &&& 0xF8) >>> 3)).toNat = 32 + s.toNat / 8) (by decide) s

theorem u8_layer (f s : UInt8) :
    (((f &&& 0x01) <<< 5) ||| ((s &&& 0xF8) >>> 3)).toNat = f.toNat % 2 * 32 + s.toNat / 8 := by
  rw [u8_layer_hi]
  rcases Nat.mod_two_eq_zero_or_one f.toNat with h | h <;> rw [h]
  · simpa using u8_layer_lo0 s
  · have := u8_layer_lo1 s
    simpa using this

set_option maxRecDepth 100000 in
theorem u8_sei264 (f : UInt8) : ((f &&& 0x1F) >>> 0 == 6) = decide (f.toNat % 32 = 6) :=
  u8_forall (fun f => ((f &&& 0x1F) >>> 0 == 6) = decide (f.toNat % 32 = 6)) (by decide) f

set_option maxRecDepth 100000 in
theorem u8_sei265 (f : UInt8) : ((f &&& 0x7E) >>> 1 == 39 || (f &&& 0x7E) >>> 1 == 40)
    = decide (f.toNat / 2 % 64 = 39 ∨ f.toNat / 2 % 64 = 40) :=
  u8_forall (fun f => ((f &&& 0x7E) >>> 1 == 39 || (f &&& 0x7E) >>> 1 == 40)
    = decide (f.toNat / 2 % 64 = 39 ∨ f.toNat / 2 % 64 = 40)) (by decide) f

/-! ### what every returned unit satisfies, on any stream -/

theorem parseHeader_data (c : Codec) (d : Bs) (n : NAL) (h : parseHeader c d = some n) : n.data = d := by
  match c, d with
  | .h264, [] => simp [parseHeader] at h
  | .h264, f :: t => simp [parseHeader] at h; rw [← h]
  | .h265, [] => simp [parseHeader, newNal] at h; rw [← h]
  | .h265, [f] => simp [parseHeader, newNal] at h; rw [← h]
  | .h265, f :: s :: t => simp [parseHeader] at h; rw [← h]

theorem finishOut_nal (c : Codec) (sei : Bool) (nr : Bs) (n : NAL) (h : finishOut c sei nr = .nal n) :
    n.data ≠ [] ∧ n = nalOf c n.data ∧ skip c sei n.data = false := by
  unfold finishOut at h
  split at h
  · cases h
  · rename_i hl
    have hne : nr.reverse ≠ [] := by intro hn; simp [hn] at hl
    split at h
    · cases h
    · rename_i s hs
      split at h
      · cases h
      · rename_i hk
        split at h
        · cases h
        · rename_i n' hp
          injection h with h
          subst h
          have hd := parseHeader_data c _ _ hp
          rw [hd]
          refine ⟨hne, ?_, ?_⟩
          · simp [nalOf, hp]
          · rw [skip_eq c sei _ s hs]; simpa using hk

theorem body_nal (c : Codec) (sei : Bool) (z : Nat) (nr buf : Bs) (src : List Ev) (n : NAL) (r' : Reader)
    (h : body c sei z nr buf src = (.nal n, r')) :
    (n.data ≠ [] ∧ n = nalOf c n.data ∧ skip c sei n.data = false) ∧ r'.codec = c ∧ r'.includeSEI = sei := by
  unfold body at h
  split at h
  · cases h
  · simp only [finish] at h
    injection h with h1 h2
    exact ⟨finishOut_nal _ _ _ _ h1, by rw [← h2], by rw [← h2]⟩
  · simp only [finish] at h
    injection h with h1 h2
    exact ⟨finishOut_nal _ _ _ _ h1, by rw [← h2], by rw [← h2]⟩

/-- every unit `NextNAL` returns: non-empty, header fields parsed from its own bytes, not an SEI unit when
    SEI inclusion is off — on any stream whatsoever -/
theorem nextNAL_nal (r : Reader) (n : NAL) (r' : Reader) (h : nextNAL r = (.nal n, r')) :
    (n.data ≠ [] ∧ n = nalOf r.codec n.data ∧ skip r.codec r.includeSEI n.data = false) ∧
      r'.codec = r.codec ∧ r'.includeSEI = r.includeSEI := by
  unfold nextNAL at h
  split at h
  · exact body_nal _ _ _ _ _ _ _ _ h
  · split at h
    · cases h
    · split at h
      · cases h
      · exact body_nal _ _ _ _ _ _ _ _ h

theorem readAll_all (r : Reader) :
    ∀ n ∈ (readAll r).1, n.data ≠ [] ∧ n = nalOf r.codec n.data ∧ skip r.codec r.includeSEI n.data = false := by
  generalize hn : r.size = k
  induction k using Nat.strongRecOn generalizing r with
  | _ k ih =>
    rw [readAll_eq]
    cases hnx : nextNAL r with
    | mk o r' =>
      cases o with
      | nal nal =>
        simp only
        obtain ⟨h1, h2, h3⟩ := nextNAL_nal r nal r' hnx
        intro n hmem
        rcases List.mem_cons.mp hmem with rfl | hmem
        · exact h1
        · have := ih r'.size (by have := nextNAL_progress r nal r' hnx; omega) r' rfl n hmem
          rw [h2, h3] at this
          exact this
      | err e => simp
      | panic => simp

theorem readAll_no_panic (r : Reader) : (readAll r).2 ≠ .panic := by
  generalize hn : r.size = k
  induction k using Nat.strongRecOn generalizing r with
  | _ k ih =>
    rw [readAll_eq]
    cases hnx : nextNAL r with
    | mk o r' =>
      cases o with
      | nal nal =>
        simp only
        exact ih r'.size (by have := nextNAL_progress r nal r' hnx; omega) r' rfl
      | err e => simp
      | panic => exact absurd (by rw [hnx]) (nextNAL_no_panic r)

/-! ### header fields and the SEI test in terms of the header bytes -/

theorem nalOf_h264 (f : Byte) (t : Bs) :
    (nalOf .h264 (f :: t)).forbidden = decide (128 ≤ f.toNat) ∧
    (nalOf .h264 (f :: t)).refIdc.toNat = f.toNat / 32 % 4 ∧
    (nalOf .h264 (f :: t)).unitType.toNat = f.toNat % 32 := by
  simp only [nalOf, parseHeader, Option.getD_some]
  exact ⟨u8_forbidden264 f, u8_refidc f, u8_low5 f⟩

theorem nalOf_h265 (f s : Byte) (t : Bs) :
    (nalOf .h265 (f :: s :: t)).forbidden = decide (128 ≤ f.toNat) ∧
    (nalOf .h265 (f :: s :: t)).unitType.toNat = f.toNat / 2 % 64 ∧
    (nalOf .h265 (f :: s :: t)).layerId.toNat = f.toNat % 2 * 32 + s.toNat / 8 ∧
    (nalOf .h265 (f :: s :: t)).tid.toNat = s.toNat % 8 := by
  simp only [nalOf, parseHeader, Option.getD_some]
  exact ⟨u8_forbidden265 f, u8_type265 f, u8_layer f s, u8_tid s⟩

theorem skip_h264 (sei : Bool) (f : Byte) (t : Bs) :
    skip .h264 sei (f :: t) = (!sei && decide (f.toNat % 32 = 6)) := by
  rw [skip_eq .h264 sei _ _ rfl, u8_sei264]

theorem skip_h265 (sei : Bool) (f : Byte) (t : Bs) :
    skip .h265 sei (f :: t) = (!sei && decide (f.toNat / 2 % 64 = 39 ∨ f.toNat / 2 % 64 = 40)) := by
  rw [skip_eq .h265 sei _ _ rfl, u8_sei265]
end WebrtcVerif.AnnexB
