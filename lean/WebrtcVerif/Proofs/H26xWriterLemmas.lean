import WebrtcVerif.Model.H26xWriter
import WebrtcVerif.Spec.H26xPacket
/-
  Lemmas for C35: exhaustive byte facts, the generic key-frame gate argument, the per-codec facts about
  `isKeyFrame` and the depacketizers on RFC 6184 / RFC 7798 packetisations, and the Annex-B read-back.
-/
namespace WebrtcVerif.H26xWriter
open WebrtcVerif.Bytes WebrtcVerif.H26xPacket

/-- exhaustive case analysis over a byte -/
theorem byte_forall {P : Byte → Prop} (h : ∀ i : Fin 256, P (UInt8.ofNat i.val)) : ∀ x : Byte, P x := by
  intro x
  have := h ⟨x.toNat, x.toNat_lt⟩
  simpa using this

/-- closes `∀ x : Byte, P x` for decidable `P` by evaluating all 256 cases in the kernel -/
macro "byte_cases" : tactic => `(tactic| (apply byte_forall; decide +kernel))

/-! ### running packet sequences -/

section run
variable {σ : Type} (step : σ → Bs → σ × Res)

/-- final state -/
def fin (s : σ) (ps : List Bs) : σ := (runWith step s ps).1
/-- bytes written -/
def out (s : σ) (ps : List Bs) : Bs := written (runWith step s ps).2

@[simp] theorem fin_nil (s : σ) : fin step s [] = s := rfl
@[simp] theorem out_nil (s : σ) : out step s [] = [] := rfl
@[simp] theorem fin_cons (s : σ) (p : Bs) (ps : List Bs) : fin step s (p :: ps) = fin step (step s p).1 ps := rfl
@[simp] theorem out_cons (s : σ) (p : Bs) (ps : List Bs) :
    out step s (p :: ps) = (step s p).2.bytes ++ out step (step s p).1 ps := by
  simp [out, runWith, written]

theorem fin_append (s : σ) (a c : List Bs) : fin step s (a ++ c) = fin step (fin step s a) c := by
  induction a generalizing s with
  | nil => rfl
  | cons p ps ih => simp [ih]

theorem out_append (s : σ) (a c : List Bs) :
    out step s (a ++ c) = out step s a ++ out step (fin step s a) c := by
  induction a generalizing s with
  | nil => rfl
  | cons p ps ih => simp [ih]

end run

theorem annexB_append (a c : List Bs) : annexB (a ++ c) = annexB a ++ annexB c := by
  simp [annexB]
@[simp] theorem annexB_nil : annexB [] = [] := rfl
theorem annexB_cons (n : Bs) (ns : List Bs) : annexB (n :: ns) = startCode ++ n ++ annexB ns := by
  simp [annexB, startCode]

/-! ### the gate, generically

  A packetisation is a list of groups; `pk g` are the payloads of a group, `nl g` the units it carries.
  Before the latch a group is either ignored (`no`), or latches at its first payload and is written whole
  (`whole`), or latches at a payload that produces nothing (`silent`); after the latch every group is
  written.  Then the output is the Annex-B framing of `afterLatch`. -/

section gate
variable {σ G : Type} (step : σ → Bs → σ × Res) (pk nl : G → List Bs) (lk : G → Latch)
  (Pre Post : σ → Prop) (ok : G → Prop)

theorem gate_post
    (hC : ∀ s g, Post s → ok g → Post (fin step s (pk g)) ∧ out step s (pk g) = annexB (nl g))
    (plan : List G) (s : σ) (hs : Post s) (hok : ∀ g ∈ plan, ok g) :
    out step s (plan.flatMap pk) = annexB (plan.flatMap nl) := by
  induction plan generalizing s with
  | nil => rfl
  | cons g gs ih =>
    have hg := hC s g hs (hok g (by simp))
    simp only [List.flatMap_cons, out_append, annexB_append, hg.2]
    rw [ih _ hg.1 (fun g' h' => hok g' (by simp [h']))]

theorem gate_generic
    (hA : ∀ s g, Pre s → ok g → lk g = .no → Pre (fin step s (pk g)) ∧ out step s (pk g) = [])
    (hB : ∀ s g, Pre s → ok g → lk g = .whole → Post (fin step s (pk g)) ∧ out step s (pk g) = annexB (nl g))
    (hS : ∀ s g, Pre s → ok g → lk g = .silent → Post (fin step s (pk g)) ∧ out step s (pk g) = [])
    (hC : ∀ s g, Post s → ok g → Post (fin step s (pk g)) ∧ out step s (pk g) = annexB (nl g))
    (plan : List G) (s : σ) (hs : Pre s) (hok : ∀ g ∈ plan, ok g) :
    out step s (plan.flatMap pk) = annexB (afterLatch lk nl plan) := by
  induction plan generalizing s with
  | nil => rfl
  | cons g gs ih =>
    have hokg := hok g (by simp)
    have hoks : ∀ g' ∈ gs, ok g' := fun g' h' => hok g' (by simp [h'])
    simp only [List.flatMap_cons, out_append, afterLatch]
    cases hl : lk g with
    | no =>
      have h := hA s g hs hokg hl
      simp only [h.2, List.nil_append]
      exact ih _ h.1 hoks
    | whole =>
      have h := hB s g hs hokg hl
      simp only [h.2, annexB_append]
      rw [gate_post step pk nl Post ok hC gs _ h.1 hoks]
    | silent =>
      have h := hS s g hs hokg hl
      simp only [h.2, List.nil_append]
      exact gate_post step pk nl Post ok hC gs _ h.1 hoks

end gate

/-! ### aggregation records -/

theorem rd16be_be16 (n : Nat) (h : n < 65536) : rd16be (b (n / 256)) (b n) = n := by
  rw [Bytes.rd16be_be16]; omega

theorem units_cons (n : Bs) (ns : List Bs) :
    units (n :: ns) = b (n.length / 256) :: b n.length :: (n ++ units ns) := by
  simp [units, be16]

def headIs (isKey : Byte → Bool) : Bs → Bool
  | u0 :: _ => isKey u0
  | [] => false

theorem aggHasKey_units (isKey : Byte → Bool) (ns : List Bs) (fuel : Nat)
    (hlen : ∀ n ∈ ns, n ≠ [] ∧ n.length < 65536) (hf : (units ns).length ≤ fuel) :
    aggHasKey isKey fuel (units ns) = ns.any (headIs isKey) := by
  induction ns generalizing fuel with
  | nil => cases fuel <;> simp [units, aggHasKey]
  | cons n ns ih =>
    have hn := hlen n (by simp)
    rw [units_cons] at hf ⊢
    match fuel, hf with
    | f + 1, hf =>
      simp only [List.length_cons, List.length_append] at hf
      simp only [aggHasKey, rd16be_be16 _ hn.2, List.length_append, List.drop_left, List.any_cons]
      have : ¬ (n.length + (units ns).length < n.length) := by omega
      simp only [this, if_false]
      rw [ih f (fun m hm => hlen m (by simp [hm])) (by omega)]
      congr 1
      match n, hn.1 with
      | u0 :: t, _ => simp [headIs]

theorem stapaUnpack_units (ns : List Bs) (fuel : Nat)
    (hlen : ∀ n ∈ ns, n.length < 65536) (hf : (units ns).length ≤ fuel) :
    stapaUnpack fuel (units ns) = some (annexB ns) := by
  induction ns generalizing fuel with
  | nil => cases fuel <;> simp [units, stapaUnpack]
  | cons n ns ih =>
    have hn := hlen n (by simp)
    rw [units_cons] at hf ⊢
    match fuel, hf with
    | f + 1, hf =>
      simp only [List.length_cons, List.length_append] at hf
      simp only [stapaUnpack, rd16be_be16 _ hn, List.length_append, List.drop_left, List.take_left]
      have : ¬ (n.length + (units ns).length < n.length) := by omega
      simp only [this, if_false]
      rw [ih f (fun m hm => hlen m (by simp [hm])) (by omega)]
      simp [annexB_cons]

/-! ### H.264 -/

theorem b264_single : ∀ h : Byte, isHdr264 h = true →
    (0 < (h &&& 0x1F) && (h &&& 0x1F) < 24) = true := by byte_cases

theorem unmarshal264_single (fua : Bs) (h : Byte) (tl : Bs) (hh : isHdr264 h = true) :
    unmarshal264 fua (h :: tl) = (fua, some (startCode ++ h :: tl)) := by
  have := b264_single h hh
  simp only [unmarshal264, this, if_true]

theorem b264_key : ∀ h : Byte, isKeyNalu264 (h &&& 0x1F) = (ntype264 h == 7 || ntype264 h == 5) := by byte_cases

theorem b264_not_agg_fu : ∀ h : Byte, isHdr264 h = true →
    ((h &&& 0x1F) == 24) = false ∧ ((h &&& 0x1F) == 28) = false := by byte_cases

theorem isKeyFrame264_single (n : Bs) (hn : isNal264 n = true) :
    isKeyFrame264 n = (key264 n && decide (4 ≤ n.length)) := by
  match n, hn with
  | [h], hn => simp [isKeyFrame264]
  | [h, _], hn => simp [isKeyFrame264]
  | [h, _, _], hn => simp [isKeyFrame264]
  | h :: b1 :: b2 :: b3 :: tl, hn =>
    have h1 := b264_not_agg_fu h hn
    simp only [isKeyFrame264, h1.1, h1.2, b264_key, key264]
    simp


/-! #### STAP-A -/

theorem b264_stap : ∀ h : Byte, (ntype264 h == 24) = true →
    (0 < (h &&& 0x1F) && (h &&& 0x1F) < 24) = false ∧ ((h &&& 0x1F) == 24) = true := by byte_cases

theorem headIs_key264 (n : Bs) : headIs (fun u => isKeyNalu264 (u &&& 0x1F)) n = key264 n := by
  cases n with
  | nil => rfl
  | cons h t => simp [headIs, key264, b264_key]

theorem isNal264_ne_nil {n : Bs} (h : isNal264 n = true) : n ≠ [] := by
  cases n with
  | nil => simp [isNal264] at h
  | cons _ _ => simp

/-- validity of a STAP-A group, unpacked -/
theorem stapA_valid {hdr : Byte} {ns : List Bs} (hv : (G264.stapA hdr ns).valid = true) :
    (ntype264 hdr == 24) = true ∧ ns ≠ [] ∧ ∀ n ∈ ns, isNal264 n = true ∧ n.length < 65536 := by
  simp only [G264.valid, Bool.and_eq_true, List.all_eq_true, decide_eq_true_eq, Bool.not_eq_true',
    List.isEmpty_eq_false_iff] at hv
  exact ⟨hv.1.1, hv.1.2, hv.2⟩

theorem isKeyFrame264_stapA (hdr : Byte) (ns : List Bs) (hv : (G264.stapA hdr ns).valid = true) :
    isKeyFrame264 (hdr :: units ns) = ns.any key264 := by
  obtain ⟨ht, hne, hall⟩ := stapA_valid hv
  have hb := b264_stap hdr ht
  have hlen : (units ns).length ≤ (hdr :: units ns).length := by
    rw [List.length_cons]; exact Nat.le_succ _
  have hagg := aggHasKey_units (fun u => isKeyNalu264 (u &&& 0x1F)) ns (hdr :: units ns).length
    (fun n hn => ⟨isNal264_ne_nil (hall n hn).1, (hall n hn).2⟩) hlen
  have hfun : (headIs fun u => isKeyNalu264 (u &&& 0x1F)) = key264 := funext headIs_key264
  rw [hfun] at hagg
  rw [← hagg]
  obtain ⟨n, ns', rfl⟩ := List.exists_cons_of_ne_nil hne
  obtain ⟨u0, t, rfl⟩ := List.exists_cons_of_ne_nil (isNal264_ne_nil (hall n (by simp)).1)
  rw [units_cons]
  simp only [isKeyFrame264, hb.2, if_true, List.drop_succ_cons, List.drop_zero, List.cons_append]

theorem unmarshal264_stapA (fua : Bs) (hdr : Byte) (ns : List Bs) (hv : (G264.stapA hdr ns).valid = true) :
    unmarshal264 fua (hdr :: units ns) = (fua, some (annexB ns)) := by
  obtain ⟨ht, _, hall⟩ := stapA_valid hv
  have hb := b264_stap hdr ht
  simp only [unmarshal264, hb.1, hb.2, if_true, Bool.false_eq_true, if_false]
  rw [stapaUnpack_units ns _ (fun n hn => (hall n hn).2) (Nat.le_refl _)]

/-! #### FU-A -/

theorem b264_fu_ind : ∀ h : Byte,
    (0 < (((h &&& 0xE0) ||| 28) &&& 0x1F) && (((h &&& 0xE0) ||| 28) &&& 0x1F) < 24) = false ∧
    ((((h &&& 0xE0) ||| 28) &&& 0x1F) == 24) = false ∧ ((((h &&& 0xE0) ||| 28) &&& 0x1F) == 28) = true := by
  byte_cases

theorem b264_fu_bits : ∀ h : Byte,
    (((0x80 ||| (h &&& 0x1F)) &&& 0x40) != 0) = false ∧ (((h &&& 0x1F) &&& 0x40) != 0) = false ∧
    (((0x40 ||| (h &&& 0x1F)) &&& 0x40) != 0) = true ∧
    (((0x80 ||| (h &&& 0x1F)) &&& 0x80) != 0) = true ∧ (((h &&& 0x1F) &&& 0x80) != 0) = false ∧
    (((0x40 ||| (h &&& 0x1F)) &&& 0x80) != 0) = false ∧
    isKeyNalu264 ((0x80 ||| (h &&& 0x1F)) &&& 0x1F) = key264 [h] := by
  byte_cases

theorem b264_fu_rebuild : ∀ h : Byte, isHdr264 h = true →
    ((((h &&& 0xE0) ||| 28) &&& 0x60) ||| ((0x40 ||| (h &&& 0x1F)) &&& 0x1F)) = h := by byte_cases

/-- any FU-A payload: the key-frame test -/
theorem isKeyFrame264_fu (h fh : Byte) (c : Bs) :
    isKeyFrame264 (((h &&& 0xE0) ||| 28) :: fh :: c) =
      (decide (2 ≤ c.length) && ((fh &&& 0x80 != 0) && isKeyNalu264 (fh &&& 0x1F))) := by
  have hb := b264_fu_ind h
  match c with
  | [] => simp [isKeyFrame264]
  | [_] => simp [isKeyFrame264]
  | x :: y :: r =>
    simp only [isKeyFrame264, hb.2.1, hb.2.2, if_true, Bool.false_eq_true, if_false]
    simp

theorem unmarshal264_fu_more (fua : Bs) (h fh : Byte) (c : Bs) (hfh : ((fh &&& 0x40) != 0) = false) :
    unmarshal264 fua (((h &&& 0xE0) ||| 28) :: fh :: c) = (fua ++ c, some []) := by
  have hb := b264_fu_ind h
  simp only [unmarshal264, hb.1, hb.2.1, hb.2.2, hfh, if_true, Bool.false_eq_true, if_false]

theorem unmarshal264_fu_end (fua : Bs) (h : Byte) (c : Bs) (hh : isHdr264 h = true) :
    unmarshal264 fua (((h &&& 0xE0) ||| 28) :: (0x40 ||| (h &&& 0x1F)) :: c) =
      ([], some (startCode ++ h :: (fua ++ c))) := by
  have hb := b264_fu_ind h
  have hc := b264_fu_bits h
  simp only [unmarshal264, hb.1, hb.2.1, hb.2.2, hc.2.2.1, b264_fu_rebuild h hh, if_true, Bool.false_eq_true, if_false]

/-- `WriteRTP` once the latch is set -/
theorem writeRTP264_latched (f : Bs) (p : Bs) (hp : p ≠ []) :
    writeRTP264 ⟨true, f⟩ p = (⟨true, (unmarshal264 f p).1⟩, resOf (unmarshal264 f p).2) := by
  cases p with
  | nil => exact absurd rfl hp
  | cons x xs => simp [writeRTP264]

/-- `WriteRTP` before the latch on a payload that is not a key frame -/
theorem writeRTP264_ignored (f : Bs) (p : Bs) (hk : isKeyFrame264 p = false) :
    writeRTP264 ⟨false, f⟩ p = (⟨false, f⟩, .skip) := by
  simp [writeRTP264, hk]

/-- …and on a key frame: exactly as if the latch were already set -/
theorem writeRTP264_latching (f : Bs) (p : Bs) (hk : isKeyFrame264 p = true) :
    writeRTP264 ⟨false, f⟩ p = writeRTP264 ⟨true, f⟩ p := by
  cases p with
  | nil => simp [isKeyFrame264] at hk
  | cons x xs => simp [writeRTP264, hk]

theorem resOf_cons (x : Byte) (xs : Bs) : resOf (some (x :: xs)) = .wrote (x :: xs) := rfl

theorem run264_fuTail (h : Byte) (hh : isHdr264 h = true) (cs : List Bs) (hcs : cs ≠ []) (acc : Bs) :
    fin writeRTP264 ⟨true, acc⟩ (fuTail [(h &&& 0xE0) ||| 28] (h &&& 0x1F) cs) = ⟨true, []⟩ ∧
    out writeRTP264 ⟨true, acc⟩ (fuTail [(h &&& 0xE0) ||| 28] (h &&& 0x1F) cs)
      = startCode ++ h :: (acc ++ cs.flatten) := by
  have hc := b264_fu_bits h
  induction cs generalizing acc with
  | nil => exact absurd rfl hcs
  | cons c cs ih =>
    cases cs with
    | nil =>
      simp only [fuTail, List.singleton_append, fin_cons, out_cons, fin_nil, out_nil]
      rw [writeRTP264_latched _ _ (by simp), unmarshal264_fu_end acc h c hh]
      simp [startCode, resOf, Res.bytes]
    | cons c' cs' =>
      simp only [fuTail, List.singleton_append, fin_cons, out_cons]
      rw [writeRTP264_latched _ _ (by simp), unmarshal264_fu_more acc h _ c hc.2.1]
      have := ih (by simp) (acc ++ c)
      simp only [resOf, Res.bytes, List.nil_append]
      refine ⟨this.1, ?_⟩
      rw [this.2]; simp

theorem run264_fuPkts (h : Byte) (hh : isHdr264 h = true) (cs : List Bs) (hcs : 2 ≤ cs.length) :
    fin writeRTP264 ⟨true, []⟩ (fuPkts [(h &&& 0xE0) ||| 28] (h &&& 0x1F) cs) = ⟨true, []⟩ ∧
    out writeRTP264 ⟨true, []⟩ (fuPkts [(h &&& 0xE0) ||| 28] (h &&& 0x1F) cs)
      = annexB [h :: cs.flatten] := by
  have hc := b264_fu_bits h
  match cs, hcs with
  | c :: c' :: cs', _ =>
    simp only [fuPkts, List.singleton_append, fin_cons, out_cons]
    rw [writeRTP264_latched _ _ (by simp), unmarshal264_fu_more [] h _ c hc.1]
    have := run264_fuTail h hh (c' :: cs') (by simp) ([] ++ c)
    simp only [resOf, Res.bytes, List.nil_append] at this ⊢
    refine ⟨this.1, ?_⟩
    rw [this.2]; simp [annexB, startCode]


/-! #### groups -/

/-- before the latch, payloads that are not key frames change nothing -/
theorem run264_ignored (ps : List Bs) (hk : ∀ p ∈ ps, isKeyFrame264 p = false) :
    fin writeRTP264 ⟨false, []⟩ ps = ⟨false, []⟩ ∧ out writeRTP264 ⟨false, []⟩ ps = [] := by
  induction ps with
  | nil => exact ⟨rfl, rfl⟩
  | cons p ps ih =>
    simp only [fin_cons, out_cons, writeRTP264_ignored [] p (hk p (by simp))]
    exact ⟨(ih (fun q hq => hk q (by simp [hq]))).1, by simp [Res.bytes, (ih (fun q hq => hk q (by simp [hq]))).2]⟩

/-- once latched, every valid group is written whole and leaves the depacketizer idle -/
theorem group264_latched (g : G264) (hv : g.valid = true) :
    fin writeRTP264 ⟨true, []⟩ g.encode = ⟨true, []⟩ ∧ out writeRTP264 ⟨true, []⟩ g.encode = annexB g.nals := by
  cases g with
  | single n =>
    simp only [G264.valid] at hv
    obtain ⟨h, tl, rfl⟩ := List.exists_cons_of_ne_nil (isNal264_ne_nil hv)
    simp only [G264.encode, G264.nals, fin_cons, out_cons, fin_nil, out_nil]
    rw [writeRTP264_latched _ _ (by simp), unmarshal264_single [] h tl (by simpa [isNal264] using hv)]
    simp [startCode, resOf, Res.bytes, annexB]
  | stapA hdr ns =>
    simp only [G264.encode, G264.nals, fin_cons, out_cons, fin_nil, out_nil]
    rw [writeRTP264_latched _ _ (by simp), unmarshal264_stapA [] hdr ns hv]
    obtain ⟨_, hne, hall⟩ := stapA_valid hv
    obtain ⟨n, ns', rfl⟩ := List.exists_cons_of_ne_nil hne
    simp [annexB_cons, startCode, resOf, Res.bytes]
  | fuA h cs =>
    simp only [G264.valid, Bool.and_eq_true, decide_eq_true_eq] at hv
    exact run264_fuPkts h hv.1 cs hv.2

theorem fuTail_not_key (h : Byte) (cs : List Bs) :
    ∀ p ∈ fuTail [(h &&& 0xE0) ||| 28] (h &&& 0x1F) cs, isKeyFrame264 p = false := by
  have hc := b264_fu_bits h
  induction cs with
  | nil => simp [fuTail]
  | cons c cs ih =>
    cases cs with
    | nil =>
      intro p hp
      simp only [fuTail, List.singleton_append, List.mem_singleton] at hp
      subst hp
      rw [isKeyFrame264_fu, hc.2.2.2.2.2.1]; simp
    | cons c' cs' =>
      intro p hp
      simp only [fuTail, List.singleton_append, List.mem_cons] at hp
      rcases hp with rfl | hp
      · rw [isKeyFrame264_fu, hc.2.2.2.2.1]; simp
      · exact ih p (by simpa [fuTail] using hp)

/-- the key-frame test on the payloads of a valid group: the first payload decides, the others never latch -/
theorem group264_key (g : G264) (hv : g.valid = true) :
    ∃ p ps, g.encode = p :: ps ∧ isKeyFrame264 p = latches264 g ∧ ∀ q ∈ ps, isKeyFrame264 q = false := by
  cases g with
  | single n =>
    exact ⟨n, [], rfl, isKeyFrame264_single n (by simpa [G264.valid] using hv), by simp⟩
  | stapA hdr ns =>
    exact ⟨_, [], rfl, isKeyFrame264_stapA hdr ns hv, by simp⟩
  | fuA h cs =>
    simp only [G264.valid, Bool.and_eq_true, decide_eq_true_eq] at hv
    have hc := b264_fu_bits h
    match cs, hv.2 with
    | c :: c' :: cs', _ =>
      refine ⟨_, _, rfl, ?_, fuTail_not_key h (c' :: cs')⟩
      simp only [List.singleton_append]
      rw [isKeyFrame264_fu, hc.2.2.2.1, hc.2.2.2.2.2.2]
      simp [latches264, Bool.and_comm]

theorem group264_no (g : G264) (hv : g.valid = true) (hl : lk264 g = .no) :
    fin writeRTP264 ⟨false, []⟩ g.encode = ⟨false, []⟩ ∧ out writeRTP264 ⟨false, []⟩ g.encode = [] := by
  obtain ⟨p, ps, he, hk, hrest⟩ := group264_key g hv
  have hf : latches264 g = false := by
    unfold lk264 at hl; split at hl <;> simp_all
  rw [he]
  apply run264_ignored
  intro q hq
  rcases List.mem_cons.mp hq with rfl | hq
  · rw [hk, hf]
  · exact hrest q hq

theorem group264_whole (g : G264) (hv : g.valid = true) (hl : lk264 g = .whole) :
    fin writeRTP264 ⟨false, []⟩ g.encode = ⟨true, []⟩ ∧ out writeRTP264 ⟨false, []⟩ g.encode = annexB g.nals := by
  obtain ⟨p, ps, he, hk, _⟩ := group264_key g hv
  have hf : latches264 g = true := by
    unfold lk264 at hl; split at hl <;> simp_all
  have := group264_latched g hv
  rw [he] at this ⊢
  simp only [fin_cons, out_cons] at this ⊢
  rw [writeRTP264_latching [] p (by rw [hk, hf])]
  exact this

/-- **The H.264 writer, exactly**: for every packetisation, what is written is the Annex-B framing of all
    units from the first group the gate latches on. -/
theorem write264_exact (plan : List G264) (hv : ∀ g ∈ plan, g.valid = true) :
    write264 (encode264 plan) = annexB (afterLatch lk264 G264.nals plan) := by
  have := gate_generic writeRTP264 G264.encode G264.nals lk264 (· = ⟨false, []⟩) (· = ⟨true, []⟩)
    (fun g => g.valid = true)
    (fun s g hs hg hl => by subst hs; exact group264_no g hg hl)
    (fun s g hs hg hl => by subst hs; exact group264_whole g hg hl)
    (fun s g hs hg hl => by unfold lk264 at hl; split at hl <;> simp at hl)
    (fun s g hs hg => by subst hs; exact group264_latched g hg)
    plan ⟨false, []⟩ rfl hv
  exact this


/-! ### from "first latching group" to "first key unit" -/

theorem dropWhile_append_of_all {α : Type} (p : α → Bool) (a c : List α) (h : ∀ x ∈ a, p x = true) :
    (a ++ c).dropWhile p = c.dropWhile p := by
  induction a with
  | nil => rfl
  | cons x xs ih =>
    simp only [List.cons_append, List.dropWhile_cons, h x (by simp), if_true]
    exact ih (fun y hy => h y (by simp [hy]))

theorem dropWhile_subset {α : Type} (p : α → Bool) (l : List α) : ∀ x ∈ l.dropWhile p, x ∈ l := by
  intro x hx
  exact (List.dropWhile_sublist p).subset hx

theorem dropWhile_of_head {α : Type} (p : α → Bool) (x : α) (xs : List α) (h : p x = false) :
    (x :: xs).dropWhile p = x :: xs := by
  simp [h]

theorem latches264_imp_key (g : G264) (h : latches264 g = true) : g.nals.any key264 = true := by
  cases g with
  | single n => simp [latches264] at h; simp [G264.nals, h.1]
  | stapA hdr ns => simpa [latches264, G264.nals] using h
  | fuA hd cs =>
    simp only [latches264, Bool.and_eq_true] at h
    simpa [G264.nals, key264] using h.1

theorem afterLatch264_clean (plan : List G264) (hc : clean264 plan = true) :
    afterLatch lk264 G264.nals plan = (nals264 plan).dropWhile (fun n => !key264 n) := by
  induction plan with
  | nil => rfl
  | cons g gs ih =>
    simp only [clean264] at hc
    simp only [afterLatch, nals264, List.flatMap_cons]
    by_cases hk : g.nals.any key264 = true
    · simp only [hk, if_true, Bool.and_eq_true] at hc
      have : lk264 g = .whole := by simp [lk264, hc.1]
      simp only [this]
      cases hn : g.nals with
      | nil => simp [hn] at hc
      | cons n ns =>
        simp only [hn, List.head?_cons, Option.map_some, Option.getD_some] at hc
        simp only [List.cons_append]
        rw [dropWhile_of_head _ _ _ (by simp [hc.2])]
    · have hk' : g.nals.any key264 = false := by simpa using hk
      simp only [hk', Bool.false_eq_true, if_false] at hc
      have hl : latches264 g = false := by
        cases h : latches264 g with
        | false => rfl
        | true => rw [latches264_imp_key g h] at hk'; cases hk'
      have : lk264 g = .no := by simp [lk264, hl]
      simp only [this]
      rw [dropWhile_append_of_all _ _ _ (by
        intro n hn
        have := List.any_eq_false.mp hk' n hn
        simpa using this)]
      exact ih hc


/-! ### H.265 -/

theorem b265_key : ∀ u : Byte, isKeyNalu265 (type265 u) = key265 [u] := by byte_cases

theorem b265_single : ∀ h0 : Byte, isHdr265 h0 = true →
    (type265 h0 == 49) = false ∧ (type265 h0 == 48) = false ∧ (type265 h0 == 50) = false ∧
    (h0 &&& 0x80 == 0) = true := by byte_cases

theorem b265_ap : ∀ a0 : Byte, (ntype265 a0 == 48) = true →
    isKeyNalu265 (type265 a0) = false ∧ (type265 a0 == 49) = false ∧ (type265 a0 == 48) = true := by byte_cases

theorem headIs_key265 (n : Bs) : headIs (fun u => isKeyNalu265 (type265 u)) n = key265 n := by
  cases n with
  | nil => rfl
  | cons h t => simp only [headIs, b265_key]; rfl

theorem isNal265_cons {n : Bs} (h : isNal265 n = true) :
    ∃ h0 h1 x r, n = h0 :: h1 :: x :: r ∧ isHdr265 h0 = true := by
  match n, h with
  | h0 :: h1 :: x :: r, h => exact ⟨h0, h1, x, r, rfl, by simpa [isNal265] using h⟩

theorem single265ok_of_nal {n : Bs} (h : isNal265 n = true) : single265ok n = true := by
  obtain ⟨h0, h1, x, r, rfl, hh⟩ := isNal265_cons h
  have hb := b265_single h0 hh
  simp [single265ok, hb.1, hb.2.1, hb.2.2.1, hb.2.2.2]

/-! #### single NAL unit packets -/

theorem isKeyFrame265_single (n : Bs) (hn : isNal265 n = true) : isKeyFrame265 n = key265 n := by
  obtain ⟨h0, h1, x, r, rfl, hh⟩ := isNal265_cons hn
  have hb := b265_single h0 hh
  have hk := b265_key h0
  simp only [isKeyFrame265, hb.1, hb.2.1, Bool.false_eq_true, if_false, hk]
  cases hk' : key265 [h0] <;> simp_all [key265]

theorem unmarshal265_single (partials : List Frag) (n : Bs) (hn : isNal265 n = true) :
    unmarshal265 partials n = ([], some (startCode ++ n)) := by
  have hok := single265ok_of_nal hn
  obtain ⟨h0, h1, x, r, rfl, hh⟩ := isNal265_cons hn
  have hb := b265_single h0 hh
  simp only [unmarshal265, hb.1, hb.2.1, hb.2.2.1, Bool.false_eq_true, if_false, hok, if_true]

/-! #### aggregation packets -/

theorem ap_valid {a0 a1 : Byte} {ns : List Bs} (hv : (G265.ap a0 a1 ns).valid = true) :
    (ntype265 a0 == 48) = true ∧ 2 ≤ ns.length ∧ ∀ n ∈ ns, isNal265 n = true ∧ n.length < 65536 := by
  simp only [G265.valid, Bool.and_eq_true, List.all_eq_true, decide_eq_true_eq] at hv
  exact ⟨hv.1.1, hv.1.2, hv.2⟩

theorem isNal265_ne_nil {n : Bs} (h : isNal265 n = true) : n ≠ [] := by
  obtain ⟨_, _, _, _, rfl, _⟩ := isNal265_cons h; simp

theorem isNal265_len {n : Bs} (h : isNal265 n = true) : 3 ≤ n.length := by
  obtain ⟨_, _, _, _, rfl, _⟩ := isNal265_cons h; simp

theorem isKeyFrame265_ap (a0 a1 : Byte) (ns : List Bs) (hv : (G265.ap a0 a1 ns).valid = true) :
    isKeyFrame265 (a0 :: a1 :: units ns) = ns.any key265 := by
  obtain ⟨ht, _, hall⟩ := ap_valid hv
  have hb := b265_ap a0 ht
  have hlen : (units ns).length ≤ (a0 :: a1 :: units ns).length := by
    simp only [List.length_cons]; omega
  have hagg := aggHasKey_units (fun u => isKeyNalu265 (type265 u)) ns (a0 :: a1 :: units ns).length
    (fun n hn => ⟨isNal265_ne_nil (hall n hn).1, (hall n hn).2⟩) hlen
  have hfun : (headIs fun u => isKeyNalu265 (type265 u)) = key265 := funext headIs_key265
  rw [hfun] at hagg
  simp only [isKeyFrame265, hb.1, hb.2.1, hb.2.2, Bool.false_eq_true, if_false, if_true]
  exact hagg

theorem apSplit_units (ns : List Bs) (fuel : Nat)
    (hall : ∀ n ∈ ns, isNal265 n = true ∧ n.length < 65536) (hf : (units ns).length < fuel) :
    apSplit fuel (units ns) = some ns := by
  induction ns generalizing fuel with
  | nil =>
    match fuel, hf with
    | f + 1, _ => simp [units, apSplit]
  | cons n ns ih =>
    have hn := hall n (by simp)
    rw [units_cons] at hf ⊢
    match fuel, hf with
    | f + 1, hf =>
      simp only [List.length_cons, List.length_append] at hf
      simp only [apSplit, rd16be_be16 _ hn.2, List.length_append, List.drop_left, List.take_left]
      have : ¬ (n.length + (units ns).length < n.length) := by omega
      simp only [this, if_false, single265ok_of_nal hn.1, Bool.not_true, Bool.false_eq_true]
      rw [ih f (fun m hm => hall m (by simp [hm])) (by omega)]
      rfl

theorem flatMap_startCode (ns : List Bs) : ns.flatMap (fun u => startCode ++ u) = annexB ns := rfl

theorem unmarshal265_ap (partials : List Frag) (a0 a1 : Byte) (ns : List Bs)
    (hv : (G265.ap a0 a1 ns).valid = true) :
    unmarshal265 partials (a0 :: a1 :: units ns) = ([], some (annexB ns)) := by
  obtain ⟨ht, hlen, hall⟩ := ap_valid hv
  have hb := b265_ap a0 ht
  have h6 : ¬ ((a0 :: a1 :: units ns).length < 6) := by
    match ns, hlen with
    | n :: m :: r, _ =>
      have h1 := isNal265_len (hall n (by simp)).1
      have h2 := isNal265_len (hall m (by simp)).1
      simp only [units_cons, List.length_cons, List.length_append]; omega
  simp only [unmarshal265, hb.2.1, hb.2.2, Bool.false_eq_true, if_false, if_true, h6, handleAgg265]
  rw [apSplit_units ns _ hall (Nat.lt_succ_self _)]
  have : ¬ (ns.length < 2) := by omega
  simp only [this, if_false, flatMap_startCode]


/-! #### fragmentation units -/

theorem b265_fu_hdr : ∀ h0 : Byte, (type265 ((h0 &&& 0x81) ||| 0x62) == 49) = true ∧
    isKeyNalu265 (type265 ((h0 &&& 0x81) ||| 0x62)) = false := by byte_cases

theorem b265_fu_bits : ∀ h0 : Byte,
    (((0x80 ||| type265 h0) &&& 0x40) != 0) = false ∧ (((0x80 ||| type265 h0) &&& 0x80) != 0) = true ∧
    ((type265 h0 &&& 0x40) != 0) = false ∧ ((type265 h0 &&& 0x80) != 0) = false ∧
    (((0x40 ||| type265 h0) &&& 0x40) != 0) = true ∧
    (((0x80 ||| type265 h0) &&& 0x80) == 0) = false := by byte_cases

theorem b265_fu_rebuild : ∀ h0 : Byte,
    ((((h0 &&& 0x81) ||| 0x62) &&& (0x81 : Byte)) ||| (((0x80 ||| type265 h0) &&& (0x3F : Byte)) <<< (1 : Byte))) = h0 := by
  byte_cases

/-- what the shifted FU-type test sees, per fragment kind, in terms of the real unit type -/
theorem b265_fu_seen : ∀ h0 : Byte,
    isKeyNalu265 (type265 (0x80 ||| type265 h0)) = decide (38 ≤ ntype265 h0 ∧ ntype265 h0 ≤ 41) ∧
    isKeyNalu265 (type265 (type265 h0)) = decide (38 ≤ ntype265 h0 ∧ ntype265 h0 ≤ 41) ∧
    isKeyNalu265 (type265 (0x40 ||| type265 h0)) = decide (ntype265 h0 ≤ 5) := by byte_cases

/-- the key-frame test on any FU payload looks only at the (shifted) FU header -/
theorem isKeyFrame265_fu (h0 h1 fh : Byte) (c : Bs) :
    isKeyFrame265 (((h0 &&& 0x81) ||| 0x62) :: h1 :: fh :: c) = isKeyNalu265 (type265 fh) := by
  have hb := b265_fu_hdr h0
  have h48 : (type265 ((h0 &&& 0x81) ||| 0x62) == 48) = false := by
    have := hb.1; revert this; generalize type265 ((h0 &&& 0x81) ||| 0x62) = t; intro h
    have : t = 49 := by simpa using h
    subst this; decide
  simp only [isKeyFrame265, hb.2, hb.1, h48, Bool.false_eq_true, if_false, if_true]

theorem unmarshal265_fu (partials : List Frag) (h0 h1 fh : Byte) (c : Bs) :
    unmarshal265 partials (((h0 &&& 0x81) ||| 0x62) :: h1 :: fh :: c) =
      handleFU265 partials ⟨(h0 &&& 0x81) ||| 0x62, h1, fh, c⟩ := by
  have hb := b265_fu_hdr h0
  simp only [unmarshal265, hb.1, if_true]

theorem writeRTP265_latched (ps : List Frag) (p : Bs) (hp : p ≠ []) :
    writeRTP265 ⟨true, ps⟩ p = (⟨true, (unmarshal265 ps p).1⟩, resOf (unmarshal265 ps p).2) := by
  cases p with
  | nil => exact absurd rfl hp
  | cons x xs => simp [writeRTP265]

theorem writeRTP265_ignored (ps : List Frag) (p : Bs) (hk : isKeyFrame265 p = false) :
    writeRTP265 ⟨false, ps⟩ p = (⟨false, ps⟩, .skip) := by
  simp [writeRTP265, hk]

theorem writeRTP265_latching (ps : List Frag) (p : Bs) (hk : isKeyFrame265 p = true) :
    writeRTP265 ⟨false, ps⟩ p = writeRTP265 ⟨true, ps⟩ p := by
  cases p with
  | nil => simp [isKeyFrame265] at hk
  | cons x xs => simp [writeRTP265, hk]

/-- the first fragment, as stored in `partials` -/
def fuFirst (h0 h1 : Byte) (c : Bs) : Frag := ⟨(h0 &&& 0x81) ||| 0x62, h1, 0x80 ||| type265 h0, c⟩

theorem run265_fuTail (h0 h1 : Byte) (c0 : Bs) (cs : List Bs) (hcs : cs ≠ []) (rest : List Frag) :
    fin writeRTP265 ⟨true, fuFirst h0 h1 c0 :: rest⟩ (fuTail [(h0 &&& 0x81) ||| 0x62, h1] (type265 h0) cs)
      = ⟨true, []⟩ ∧
    out writeRTP265 ⟨true, fuFirst h0 h1 c0 :: rest⟩ (fuTail [(h0 &&& 0x81) ||| 0x62, h1] (type265 h0) cs)
      = startCode ++ h0 :: h1 :: ((fuFirst h0 h1 c0 :: rest).flatMap (·.payload) ++ cs.flatten) := by
  have hc := b265_fu_bits h0
  induction cs generalizing rest with
  | nil => exact absurd rfl hcs
  | cons c cs ih =>
    cases cs with
    | nil =>
      simp only [fuTail, List.cons_append, List.nil_append, fin_cons, out_cons, fin_nil, out_nil]
      rw [writeRTP265_latched _ _ (by simp), unmarshal265_fu]
      simp only [handleFU265, hc.2.2.2.2.1, if_true, List.isEmpty_cons, Bool.false_eq_true, if_false,
        List.cons_append, fuFirst, hc.2.2.2.2.2, b265_fu_rebuild]
      simp [startCode, resOf, Res.bytes]
    | cons c' cs' =>
      simp only [fuTail, List.cons_append, List.nil_append, fin_cons, out_cons]
      rw [writeRTP265_latched _ _ (by simp), unmarshal265_fu]
      simp only [handleFU265, hc.2.2.1, hc.2.2.2.1, Bool.false_eq_true, if_false, List.isEmpty_cons]
      have := ih (by simp) (rest ++ [⟨(h0 &&& 0x81) ||| 0x62, h1, type265 h0, c⟩])
      simp only [resOf, Res.bytes, List.nil_append, List.cons_append] at this ⊢
      refine ⟨this.1, ?_⟩
      rw [this.2]; simp

theorem run265_fuPkts (h0 h1 : Byte) (cs : List Bs) (hcs : 2 ≤ cs.length) (ps : List Frag) :
    fin writeRTP265 ⟨true, ps⟩ (fuPkts [(h0 &&& 0x81) ||| 0x62, h1] (type265 h0) cs) = ⟨true, []⟩ ∧
    out writeRTP265 ⟨true, ps⟩ (fuPkts [(h0 &&& 0x81) ||| 0x62, h1] (type265 h0) cs)
      = annexB [h0 :: h1 :: cs.flatten] := by
  have hc := b265_fu_bits h0
  match cs, hcs with
  | c :: c' :: cs', _ =>
    simp only [fuPkts, List.cons_append, List.nil_append, fin_cons, out_cons]
    rw [writeRTP265_latched _ _ (by simp), unmarshal265_fu]
    simp only [handleFU265, hc.1, hc.2.1, Bool.false_eq_true, if_false, if_true]
    have := run265_fuTail h0 h1 c (c' :: cs') (by simp) []
    simp only [fuFirst] at this
    simp only [resOf, Res.bytes, List.nil_append]
    refine ⟨this.1, ?_⟩
    rw [this.2]; simp [annexB, startCode]


/-! #### groups -/

theorem run265_ignored (ps : List Bs) (hk : ∀ p ∈ ps, isKeyFrame265 p = false) :
    fin writeRTP265 ⟨false, []⟩ ps = ⟨false, []⟩ ∧ out writeRTP265 ⟨false, []⟩ ps = [] := by
  induction ps with
  | nil => exact ⟨rfl, rfl⟩
  | cons p ps ih =>
    simp only [fin_cons, out_cons, writeRTP265_ignored [] p (hk p (by simp))]
    exact ⟨(ih (fun q hq => hk q (by simp [hq]))).1, by simp [Res.bytes, (ih (fun q hq => hk q (by simp [hq]))).2]⟩

theorem fu_valid {h0 h1 : Byte} {cs : List Bs} (hv : (G265.fu h0 h1 cs).valid = true) :
    isHdr265 h0 = true ∧ 2 ≤ cs.length := by
  simp only [G265.valid, Bool.and_eq_true, decide_eq_true_eq] at hv
  obtain ⟨_, _, _, _, he, hh⟩ := isNal265_cons hv.1
  simp only [List.cons.injEq] at he
  exact ⟨he.1 ▸ hh, hv.2⟩

theorem group265_latched (g : G265) (hv : g.valid = true) :
    fin writeRTP265 ⟨true, []⟩ g.encode = ⟨true, []⟩ ∧ out writeRTP265 ⟨true, []⟩ g.encode = annexB g.nals := by
  cases g with
  | single n =>
    simp only [G265.valid] at hv
    simp only [G265.encode, G265.nals, fin_cons, out_cons, fin_nil, out_nil]
    rw [writeRTP265_latched _ _ (isNal265_ne_nil hv), unmarshal265_single [] n hv]
    simp [startCode, resOf, Res.bytes, annexB]
  | ap a0 a1 ns =>
    simp only [G265.encode, G265.nals, fin_cons, out_cons, fin_nil, out_nil]
    rw [writeRTP265_latched _ _ (by simp), unmarshal265_ap [] a0 a1 ns hv]
    obtain ⟨_, hlen, hall⟩ := ap_valid hv
    match ns, hlen with
    | n :: m :: r, _ => simp [annexB_cons, startCode, resOf, Res.bytes]
  | fu h0 h1 cs =>
    exact run265_fuPkts h0 h1 cs (fu_valid hv).2 []

theorem encode265_fu (h0 h1 : Byte) (cs : List Bs) :
    (G265.fu h0 h1 cs).encode = fuPkts [(h0 &&& 0x81) ||| 0x62, h1] (type265 h0) cs := rfl

/-- middle fragments and the end fragment, before the latch -/
theorem fuTail265_seen (h0 h1 : Byte) (cs : List Bs) (hcs : cs ≠ []) :
    ∃ mids last, fuTail [(h0 &&& 0x81) ||| 0x62, h1] (type265 h0) cs = mids ++ [last] ∧
      (∀ p ∈ mids, isKeyFrame265 p = decide (38 ≤ ntype265 h0 ∧ ntype265 h0 ≤ 41)) ∧
      isKeyFrame265 last = decide (ntype265 h0 ≤ 5) ∧
      ∃ c, last = ((h0 &&& 0x81) ||| 0x62) :: h1 :: (0x40 ||| type265 h0) :: c := by
  have hs := b265_fu_seen h0
  induction cs with
  | nil => exact absurd rfl hcs
  | cons c cs ih =>
    cases cs with
    | nil =>
      refine ⟨[], _, by simp [fuTail], by simp, ?_, c, rfl⟩
      rw [isKeyFrame265_fu, hs.2.2]
    | cons c' cs' =>
      obtain ⟨mids, last, he, hm, hl, hc⟩ := ih (by simp)
      refine ⟨(((h0 &&& 0x81) ||| 0x62) :: h1 :: type265 h0 :: c) :: mids, last, ?_, ?_, hl, hc⟩
      · simp only [fuTail, List.cons_append, he, List.nil_append]
      · intro p hp
        rcases List.mem_cons.mp hp with rfl | hp
        · rw [isKeyFrame265_fu, hs.2.1]
        · exact hm p hp

theorem group265_no (g : G265) (hv : g.valid = true) (hl : lk265 g = .no) :
    fin writeRTP265 ⟨false, []⟩ g.encode = ⟨false, []⟩ ∧ out writeRTP265 ⟨false, []⟩ g.encode = [] := by
  apply run265_ignored
  cases g with
  | single n =>
    intro p hp
    simp only [G265.encode, List.mem_singleton] at hp; subst hp
    rw [isKeyFrame265_single p (by simpa [G265.valid] using hv)]
    simp only [lk265] at hl; split at hl <;> simp_all
  | ap a0 a1 ns =>
    intro p hp
    simp only [G265.encode, List.mem_singleton] at hp; subst hp
    rw [isKeyFrame265_ap a0 a1 ns hv]
    simp only [lk265] at hl; split at hl <;> simp_all
  | fu h0 h1 cs =>
    have hs := b265_fu_seen h0
    obtain ⟨_, hlen⟩ := fu_valid hv
    have hno : ¬ (38 ≤ ntype265 h0 ∧ ntype265 h0 ≤ 41) ∧ ¬ (ntype265 h0 ≤ 5) := by
      simp only [lk265] at hl
      split at hl
      · cases hl
      · split at hl
        · cases hl
        · constructor <;> assumption
    match cs, hlen with
    | c :: c' :: cs', _ =>
      obtain ⟨mids, last, he, hm, hlast, _⟩ := fuTail265_seen h0 h1 (c' :: cs') (by simp)
      intro p hp
      simp only [encode265_fu, fuPkts, List.cons_append, List.nil_append, List.mem_cons] at hp
      rcases hp with rfl | hp
      · rw [isKeyFrame265_fu, hs.1]; simp [hno.1]
      · rw [he] at hp
        rcases List.mem_append.mp hp with hp | hp
        · rw [hm p hp]; simp [hno.1]
        · simp only [List.mem_singleton] at hp; subst hp
          rw [hlast]; simp [hno.2]

theorem group265_whole (g : G265) (hv : g.valid = true) (hl : lk265 g = .whole) :
    fin writeRTP265 ⟨false, []⟩ g.encode = ⟨true, []⟩ ∧ out writeRTP265 ⟨false, []⟩ g.encode = annexB g.nals := by
  have hlat := group265_latched g hv
  -- the first payload is a key frame in every `whole` case
  have hfirst : ∃ p ps, g.encode = p :: ps ∧ isKeyFrame265 p = true := by
    cases g with
    | single n =>
      refine ⟨n, [], rfl, ?_⟩
      rw [isKeyFrame265_single n (by simpa [G265.valid] using hv)]
      simp only [lk265] at hl; split at hl <;> simp_all
    | ap a0 a1 ns =>
      refine ⟨_, [], rfl, ?_⟩
      rw [isKeyFrame265_ap a0 a1 ns hv]
      simp only [lk265] at hl; split at hl <;> simp_all
    | fu h0 h1 cs =>
      have hs := b265_fu_seen h0
      obtain ⟨_, hlen⟩ := fu_valid hv
      match cs, hlen with
      | c :: c' :: cs', _ =>
        refine ⟨((h0 &&& 0x81) ||| 0x62) :: h1 :: (0x80 ||| type265 h0) :: c, _, rfl, ?_⟩
        rw [isKeyFrame265_fu, hs.1]
        simp only [lk265] at hl
        split at hl
        · simpa using ‹_›
        · split at hl <;> cases hl
  obtain ⟨p, ps, he, hk⟩ := hfirst
  rw [he] at hlat ⊢
  simp only [fin_cons, out_cons] at hlat ⊢
  rw [writeRTP265_latching [] p hk]
  exact hlat

theorem group265_silent (g : G265) (hv : g.valid = true) (hl : lk265 g = .silent) :
    fin writeRTP265 ⟨false, []⟩ g.encode = ⟨true, []⟩ ∧ out writeRTP265 ⟨false, []⟩ g.encode = [] := by
  cases g with
  | single n => simp only [lk265] at hl; split at hl <;> cases hl
  | ap a0 a1 ns => simp only [lk265] at hl; split at hl <;> cases hl
  | fu h0 h1 cs =>
    have hs := b265_fu_seen h0
    have hc := b265_fu_bits h0
    obtain ⟨_, hlen⟩ := fu_valid hv
    have hty : ¬ (38 ≤ ntype265 h0 ∧ ntype265 h0 ≤ 41) ∧ ntype265 h0 ≤ 5 := by
      simp only [lk265] at hl
      split at hl
      · cases hl
      · split at hl
        · constructor <;> assumption
        · cases hl
    match cs, hlen with
    | c :: c' :: cs', _ =>
      obtain ⟨mids, last, he, hm, hlast, cl, hcl⟩ := fuTail265_seen h0 h1 (c' :: cs') (by simp)
      simp only [encode265_fu, fuPkts, List.cons_append, List.nil_append] at he ⊢
      rw [he, ← List.cons_append]
      have hign := run265_ignored ((((h0 &&& 0x81) ||| 0x62) :: h1 :: (0x80 ||| type265 h0) :: c) :: mids) (by
        intro p hp
        rcases List.mem_cons.mp hp with rfl | hp
        · rw [isKeyFrame265_fu, hs.1]; simp [hty.1]
        · rw [hm p hp]; simp [hty.1])
      rw [fin_append, out_append, hign.1, hign.2]
      simp only [fin_cons, out_cons, fin_nil, out_nil, List.nil_append]
      rw [writeRTP265_latching [] last (by rw [hlast]; simp [hty.2]), writeRTP265_latched _ _ (by rw [hcl]; simp)]
      rw [hcl, unmarshal265_fu]
      simp [handleFU265, hc.2.2.2.2.1, resOf, Res.bytes]

/-- **The H.265 writer, exactly**: for every packetisation, what is written is the Annex-B framing of the
    units after the first group the gate latches on (including that group unless it latched silently). -/
theorem write265_exact (plan : List G265) (hv : ∀ g ∈ plan, g.valid = true) :
    write265 (encode265 plan) = annexB (afterLatch lk265 G265.nals plan) := by
  exact gate_generic writeRTP265 G265.encode G265.nals lk265 (· = ⟨false, []⟩) (· = ⟨true, []⟩)
    (fun g => g.valid = true)
    (fun s g hs hg hl => by subst hs; exact group265_no g hg hl)
    (fun s g hs hg hl => by subst hs; exact group265_whole g hg hl)
    (fun s g hs hg hl => by subst hs; exact group265_silent g hg hl)
    (fun s g hs hg => by subst hs; exact group265_latched g hg)
    plan ⟨false, []⟩ rfl hv


theorem afterLatch265_clean (plan : List G265) (hc : clean265 plan = true) :
    afterLatch lk265 G265.nals plan = (nals265 plan).dropWhile (fun n => !key265 n) := by
  induction plan with
  | nil => rfl
  | cons g gs ih =>
    simp only [clean265] at hc
    simp only [afterLatch, nals265, List.flatMap_cons]
    by_cases hk : g.nals.any key265 = true
    · simp only [hk, if_true] at hc
      cases g with
      | single n =>
        have hkn : key265 n = true := by simpa [G265.nals] using hk
        simp only [lk265, hkn, if_true, G265.nals, List.cons_append, List.nil_append]
        rw [dropWhile_of_head _ _ _ (by simp [hkn])]
      | ap a0 a1 ns =>
        have hka : ns.any key265 = true := by simpa [G265.nals] using hk
        simp only [lk265, hka, if_true, G265.nals]
        cases ns with
        | nil => simp at hka
        | cons n ns' =>
          simp only [List.head?_cons, Option.map_some, Option.getD_some] at hc
          simp only [List.cons_append]
          rw [dropWhile_of_head _ _ _ (by simp [hc])]
      | fu h0 h1 cs => simp at hc
    · have hk' : g.nals.any key265 = false := by simpa using hk
      simp only [hk', Bool.false_eq_true, if_false, Bool.and_eq_true, beq_iff_eq] at hc
      simp only [hc.1]
      rw [dropWhile_append_of_all _ _ _ (by
        intro n hn
        have := List.any_eq_false.mp hk' n hn
        simpa using this)]
      exact ih hc.2


/-! ### reading Annex-B back -/

theorem hasStartCode_tail (x : Byte) (m : Bs) (h : hasStartCode (x :: m) = false) : hasStartCode m = false := by
  match m with
  | [] => rfl
  | [_] => rfl
  | [_, _] => simp [hasStartCode]
  | a :: b' :: c :: r =>
    rw [hasStartCode, Bool.or_eq_false_iff] at h
    exact h.2

/-- the zeros already counted (at most two matter), as bytes in front of what is still to come -/
def zpre (zeros : Nat) : Bs := List.replicate (min zeros 2) 0

/-- Reading the bytes of a unit that contains no emulated start code (given the zeros already counted)
    and ends in a non-zero byte never detects a boundary: the bytes are appended to the buffer, and the
    zero count is 0 afterwards. -/
theorem rdLoop_unit (m : Bs) (hne : m ≠ []) (tail rbuf : Bs) (zeros : Nat)
    (hsc : hasStartCode (zpre zeros ++ m) = false) (hlast : m.getLast hne ≠ 0) :
    rdLoop (m ++ tail) rbuf zeros = rdLoop tail (m.reverse ++ rbuf) 0 := by
  induction m generalizing rbuf zeros with
  | nil => exact absurd rfl hne
  | cons x m' ih =>
    -- a `1` cannot come after two counted zeros
    have hx1 : x = 1 → zeros < 2 := by
      intro hx; subst hx
      by_cases hz : zeros < 2
      · exact hz
      · have : min zeros 2 = 2 := by omega
        simp [zpre, this, List.replicate, hasStartCode] at hsc
    by_cases hm' : m' = []
    · subst hm'
      simp only [List.getLast_singleton] at hlast
      have hx0 : (x == 0) = false := by simpa using hlast
      simp only [List.cons_append, List.nil_append, rdLoop, hx0, Bool.false_eq_true, if_false,
        List.reverse_cons, List.reverse_nil]
      by_cases hx : x = 1
      · have := hx1 hx
        subst hx
        have : ¬ (zeros ≥ 2) := by omega
        simp [this]
      · have : (x == 1) = false := by simpa using hx
        simp [this]
    · have hlast' : m'.getLast hm' ≠ 0 := by
        rw [List.getLast_cons hm'] at hlast; exact hlast
      simp only [List.cons_append, rdLoop, List.reverse_cons, List.append_assoc]
      by_cases hx0 : x = 0
      · subst hx0
        simp only [beq_self_eq_true, if_true]
        apply ih hm' _ _ _ hlast'
        -- zpre (zeros+1) ++ m' is a suffix of zpre zeros ++ 0 :: m'
        by_cases hz : zeros < 2
        · have h1 : zpre (zeros + 1) ++ m' = zpre zeros ++ 0 :: m' := by
            match zeros, hz with
            | 0, _ => rfl
            | 1, _ => rfl
          rw [h1]; exact hsc
        · have h2 : min zeros 2 = 2 := by omega
          have h3 : min (zeros + 1) 2 = 2 := by omega
          have : zpre zeros ++ 0 :: m' = 0 :: (zpre (zeros + 1) ++ m') := by
            simp [zpre, h2, h3, List.replicate]
          rw [this] at hsc
          exact hasStartCode_tail _ _ hsc
      · have hx0' : (x == 0) = false := by simpa using hx0
        -- after a non-zero byte the count restarts: the remaining bytes alone have no start code
        have hrest : hasStartCode (zpre 0 ++ m') = false := by
          have : ∀ (pre : Bs), hasStartCode (pre ++ x :: m') = false → hasStartCode m' = false := by
            intro pre
            induction pre with
            | nil => exact hasStartCode_tail x m'
            | cons p ps ihp => intro h; exact ihp (hasStartCode_tail _ _ h)
          simpa [zpre] using this _ hsc
        simp only [hx0', Bool.false_eq_true, if_false]
        by_cases hx : x = 1
        · have hz := hx1 hx
          subst hx
          have : ¬ (zeros ≥ 2) := by omega
          simp only [beq_self_eq_true, if_true, this, if_false]
          exact ih hm' _ _ hrest hlast'
        · have : (x == 1) = false := by simpa using hx
          simp only [this, Bool.false_eq_true, if_false]
          exact ih hm' _ _ hrest hlast'

theorem wf_unpack {n : Bs} (h : wf n = true) :
    ∃ hne : n ≠ [], n.getLast hne ≠ 0 ∧ hasStartCode n = false := by
  unfold wf at h
  cases hn : n.getLast? with
  | none => simp [hn] at h
  | some l =>
    simp only [hn, Bool.and_eq_true, bne_iff_ne, ne_eq, Bool.not_eq_true'] at h
    have hne : n ≠ [] := by
      intro e; subst e; simp at hn
    refine ⟨hne, ?_, h.2⟩
    have := List.getLast?_eq_some_getLast hne
    rw [this] at hn
    cases hn
    exact h.1

/-- the reader's loop on the Annex-B framing (four-byte start codes) of well-formed units, entered after
    a start code with an empty buffer -/
theorem rdLoop_annexB (n : Bs) (ns : List Bs) (hn : wf n = true) (hns : ∀ m ∈ ns, wf m = true) :
    rdLoop (n ++ annexB ns) [] 0 = n :: ns := by
  induction ns generalizing n with
  | nil =>
    obtain ⟨hne, hl, hsc⟩ := wf_unpack hn
    rw [annexB_nil, rdLoop_unit n hne [] [] 0 (by simpa [zpre] using hsc) hl]
    simp [rdLoop, hne]
  | cons m ms ih =>
    obtain ⟨hne, hl, hsc⟩ := wf_unpack hn
    rw [rdLoop_unit n hne _ [] 0 (by simpa [zpre] using hsc) hl]
    rw [annexB_cons]
    have hlen : n.length + 3 > 3 := by
      have : 0 < n.length := List.length_pos_iff.mpr hne
      omega
    simp only [startCode, List.cons_append, List.nil_append, List.append_nil, rdLoop]
    simp [hlen, ih m (hns m (by simp)) (fun k hk => hns k (by simp [hk]))]

/-- **Read-back**: the matching reader (SEI inclusion on) returns exactly the units whose Annex-B framing
    it is given, then end of stream. -/
theorem readBack_annexB (ns : List Bs) (hns : ∀ m ∈ ns, wf m = true) :
    readBack (annexB ns) = (ns, .eof) := by
  cases ns with
  | nil => rfl
  | cons n ns =>
    rw [annexB_cons]
    simp only [startCode, List.cons_append, List.nil_append, readBack]
    rw [rdLoop_annexB n ns (hns n (by simp)) (fun k hk => hns k (by simp [hk]))]


/-! ### the judge's decoder inverts the packetisation -/

theorem splitUnits_units (ns : List Bs) (fuel : Nat)
    (hall : ∀ n ∈ ns, n ≠ [] ∧ n.length < 65536) (hf : (units ns).length ≤ fuel) :
    splitUnits fuel (units ns) = some ns := by
  induction ns generalizing fuel with
  | nil => cases fuel <;> simp [units, splitUnits]
  | cons n ns ih =>
    have hn := hall n (by simp)
    rw [units_cons] at hf ⊢
    match fuel, hf with
    | f + 1, hf =>
      simp only [List.length_cons, List.length_append] at hf
      have hpos : 0 < n.length := List.length_pos_iff.mpr hn.1
      simp only [splitUnits, rd16be_be16 _ hn.2, List.length_append, List.drop_left, List.take_left]
      have : ¬ (n.length = 0 ∨ n.length + (units ns).length < n.length) := by omega
      simp only [this, if_false]
      rw [ih f (fun m hm => hall m (by simp [hm])) (by omega)]
      rfl

theorem d264_single : ∀ h : Byte, isHdr264 h = true → (1 ≤ ntype264 h ∧ ntype264 h ≤ 23) := by byte_cases

theorem d264_stap : ∀ h : Byte, (ntype264 h == 24) = true →
    ¬ (1 ≤ ntype264 h ∧ ntype264 h ≤ 23) ∧ ntype264 h = 24 := by byte_cases

theorem d264_fu : ∀ h : Byte,
    ¬ (1 ≤ ntype264 ((h &&& 0xE0) ||| 28) ∧ ntype264 ((h &&& 0xE0) ||| 28) ≤ 23) ∧
    ntype264 ((h &&& 0xE0) ||| 28) ≠ 24 ∧ ntype264 ((h &&& 0xE0) ||| 28) = 28 ∧
    (0x80 ||| (h &&& 0x1F)).toNat / 32 = 4 ∧
    b (((h &&& 0xE0) ||| 28).toNat / 32 * 32 + (0x80 ||| (h &&& 0x1F)).toNat % 32) = h ∧
    b ((0x80 ||| (h &&& 0x1F)).toNat % 32) = (h &&& 0x1F) ∧
    b ((h &&& 0x1F).toNat % 32) = (h &&& 0x1F) ∧ (h &&& 0x1F).toNat / 32 = 0 ∧
    b ((0x40 ||| (h &&& 0x1F)).toNat % 32) = (h &&& 0x1F) ∧ (0x40 ||| (h &&& 0x1F)).toNat / 32 = 2 := by
  byte_cases

theorem dec264_mid (pd : Pend) (h fh : Byte) (c : Bs) (ps : List Bs)
    (h1 : [h] = pd.pre) (h2 : b (fh.toNat % 32) = pd.typ) (h3 : fh.toNat / 32 = 0) :
    dec264 (some pd) ((h :: fh :: c) :: ps) = dec264 (some { pd with rchunks := c :: pd.rchunks }) ps := by
  simp only [dec264, h1, h2, h3, and_self, if_true]

theorem dec264_end (pd : Pend) (h fh o : Byte) (c : Bs) (ps : List Bs)
    (h1 : [h] = pd.pre) (h2 : b (fh.toNat % 32) = pd.typ) (h3 : fh.toNat / 32 = 2) (h4 : pd.hdr = [o]) :
    dec264 (some pd) ((h :: fh :: c) :: ps)
      = (dec264 none ps).map (fun r => .fuA o (c :: pd.rchunks).reverse :: r) := by
  simp only [dec264, h1, h2, h3, h4, and_self, if_true]
  simp

theorem dec264_start (h fh : Byte) (c : Bs) (ps : List Bs)
    (h3 : ntype264 h = 28)
    (h4 : fh.toNat / 32 = 4) (h5 : isHdr264 (b (h.toNat / 32 * 32 + fh.toNat % 32)) = true) :
    dec264 none ((h :: fh :: c) :: ps)
      = dec264 (some { hdr := [b (h.toNat / 32 * 32 + fh.toNat % 32)], pre := [h], typ := b (fh.toNat % 32),
                       rchunks := [c] }) ps := by
  simp [dec264, h3, h4, h5]

theorem dec264_fuTail (h : Byte) (cs : List Bs) (hcs : cs ≠ []) (rchunks : List Bs) (rest : List Bs) :
    dec264 (some { hdr := [h], pre := [(h &&& 0xE0) ||| 28], typ := h &&& 0x1F, rchunks := rchunks })
        (fuTail [(h &&& 0xE0) ||| 28] (h &&& 0x1F) cs ++ rest)
      = (dec264 none rest).map (fun r => .fuA h (rchunks.reverse ++ cs) :: r) := by
  have hd := d264_fu h
  induction cs generalizing rchunks with
  | nil => exact absurd rfl hcs
  | cons c cs ih =>
    cases cs with
    | nil =>
      simp only [fuTail, List.cons_append, List.nil_append]
      rw [dec264_end _ _ _ h c rest rfl hd.2.2.2.2.2.2.2.2.1 hd.2.2.2.2.2.2.2.2.2 rfl]
      simp
    | cons c' cs' =>
      have := ih (by simp) (c :: rchunks)
      simp only [List.reverse_cons, List.append_assoc, List.singleton_append] at this
      rw [← this]
      simp only [fuTail, List.cons_append, List.nil_append]
      rw [dec264_mid _ _ _ c _ rfl hd.2.2.2.2.2.2.1 hd.2.2.2.2.2.2.2.1]

theorem decode264_encode (plan : List G264) (hv : ∀ g ∈ plan, g.valid = true) :
    decode264 (encode264 plan) = some plan := by
  unfold decode264 encode264
  induction plan with
  | nil => rfl
  | cons g gs ih =>
    have ihs := ih (fun g' h' => hv g' (by simp [h']))
    have hg := hv g (by simp)
    simp only [List.flatMap_cons]
    cases g with
    | single n =>
      simp only [G264.valid] at hg
      obtain ⟨h, tl, rfl⟩ := List.exists_cons_of_ne_nil (isNal264_ne_nil hg)
      have hh : isHdr264 h = true := by simpa [isNal264] using hg
      have := d264_single h hh
      simp only [G264.encode, List.singleton_append, dec264, this, and_self, if_true, hg, ihs, Option.map_some]
    | stapA hdr ns =>
      obtain ⟨ht, hne, hall⟩ := stapA_valid hg
      have hd := d264_stap hdr ht
      have hsp := splitUnits_units ns (units ns).length
        (fun n hn => ⟨isNal264_ne_nil (hall n hn).1, (hall n hn).2⟩) (Nat.le_refl _)
      have h24 : ntype264 hdr = 24 := hd.2
      simp only [G264.encode, List.singleton_append, dec264, h24, hsp, hg, ihs, Option.map_some]
      simp
    | fuA h cs =>
      simp only [G264.valid, Bool.and_eq_true, decide_eq_true_eq] at hg
      have hd := d264_fu h
      match cs, hg.2 with
      | c :: c' :: cs', _ =>
        have := dec264_fuTail h (c' :: cs') (by simp) [c] (List.flatMap G264.encode gs)
        simp only [List.reverse_cons, List.reverse_nil, List.nil_append, List.singleton_append] at this
        simp only [G264.encode, fuPkts, List.cons_append, List.nil_append]
        rw [dec264_start _ _ c _ hd.2.2.1 hd.2.2.2.1 (by rw [hd.2.2.2.2.1]; exact hg.1)]
        rw [hd.2.2.2.2.1, hd.2.2.2.2.2.1, this, ihs]
        rfl


theorem d265_single : ∀ h : Byte, isHdr265 h = true → ntype265 h < 48 := by byte_cases

theorem d265_ap : ∀ h : Byte, (ntype265 h == 48) = true → ntype265 h = 48 := by byte_cases

theorem d265_fu : ∀ h : Byte,
    ntype265 ((h &&& 0x81) ||| 0x62) = 49 ∧
    (0x80 ||| type265 h).toNat / 64 = 2 ∧
    b (((h &&& 0x81) ||| 0x62).toNat / 128 * 128 + (0x80 ||| type265 h).toNat % 64 * 2
        + ((h &&& 0x81) ||| 0x62).toNat % 2) = h ∧
    b ((0x80 ||| type265 h).toNat % 64) = type265 h ∧
    b ((type265 h).toNat % 64) = type265 h ∧ (type265 h).toNat / 64 = 0 ∧
    b ((0x40 ||| type265 h).toNat % 64) = type265 h ∧ (0x40 ||| type265 h).toNat / 64 = 1 := by
  byte_cases

theorem dec265_mid (pd : Pend) (h0 h1 fh : Byte) (c : Bs) (ps : List Bs)
    (e1 : [h0, h1] = pd.pre) (e2 : b (fh.toNat % 64) = pd.typ) (e3 : fh.toNat / 64 = 0) :
    dec265 (some pd) ((h0 :: h1 :: fh :: c) :: ps) = dec265 (some { pd with rchunks := c :: pd.rchunks }) ps := by
  simp only [dec265, e1, e2, e3, and_self, if_true]

theorem dec265_end (pd : Pend) (h0 h1 fh o0 o1 : Byte) (c : Bs) (ps : List Bs)
    (e1 : [h0, h1] = pd.pre) (e2 : b (fh.toNat % 64) = pd.typ) (e3 : fh.toNat / 64 = 1) (e4 : pd.hdr = [o0, o1])
    (e5 : (G265.fu o0 o1 (c :: pd.rchunks).reverse).valid = true) :
    dec265 (some pd) ((h0 :: h1 :: fh :: c) :: ps)
      = (dec265 none ps).map (fun r => .fu o0 o1 (c :: pd.rchunks).reverse :: r) := by
  simp only [dec265, e1, e2, e3, e4, and_self, if_true, e5]
  simp

theorem dec265_start (h0 h1 fh : Byte) (c : Bs) (ps : List Bs)
    (e3 : ntype265 h0 = 49) (e4 : fh.toNat / 64 = 2)
    (e5 : isHdr265 (b (h0.toNat / 128 * 128 + fh.toNat % 64 * 2 + h0.toNat % 2)) = true) :
    dec265 none ((h0 :: h1 :: fh :: c) :: ps)
      = dec265 (some { hdr := [b (h0.toNat / 128 * 128 + fh.toNat % 64 * 2 + h0.toNat % 2), h1], pre := [h0, h1],
                       typ := b (fh.toNat % 64), rchunks := [c] }) ps := by
  simp [dec265, e3, e4, e5]

theorem dec265_fuTail (h0 h1 : Byte) (cs : List Bs) (hcs : cs ≠ []) (rchunks : List Bs) (rest : List Bs)
    (hv : (G265.fu h0 h1 (rchunks.reverse ++ cs)).valid = true) :
    dec265 (some { hdr := [h0, h1], pre := [(h0 &&& 0x81) ||| 0x62, h1], typ := type265 h0, rchunks := rchunks })
        (fuTail [(h0 &&& 0x81) ||| 0x62, h1] (type265 h0) cs ++ rest)
      = (dec265 none rest).map (fun r => .fu h0 h1 (rchunks.reverse ++ cs) :: r) := by
  have hd := d265_fu h0
  induction cs generalizing rchunks with
  | nil => exact absurd rfl hcs
  | cons c cs ih =>
    cases cs with
    | nil =>
      simp only [fuTail, List.cons_append, List.nil_append]
      rw [dec265_end _ _ _ _ h0 h1 c rest rfl hd.2.2.2.2.2.2.1 hd.2.2.2.2.2.2.2 rfl (by simpa using hv)]
      simp
    | cons c' cs' =>
      have := ih (by simp) (c :: rchunks) (by simpa using hv)
      simp only [List.reverse_cons, List.append_assoc, List.singleton_append] at this
      rw [← this]
      simp only [fuTail, List.cons_append, List.nil_append]
      rw [dec265_mid _ _ _ _ c _ rfl hd.2.2.2.2.1 hd.2.2.2.2.2.1]

theorem decode265_encode (plan : List G265) (hv : ∀ g ∈ plan, g.valid = true) :
    decode265 (encode265 plan) = some plan := by
  unfold decode265 encode265
  induction plan with
  | nil => rfl
  | cons g gs ih =>
    have ihs := ih (fun g' h' => hv g' (by simp [h']))
    have hg := hv g (by simp)
    simp only [List.flatMap_cons]
    cases g with
    | single n =>
      have hn : isNal265 n = true := by simpa [G265.valid] using hg
      obtain ⟨h0, h1, x, r, rfl, hh⟩ := isNal265_cons hn
      have := d265_single h0 hh
      simp only [G265.encode, List.singleton_append, dec265, this, if_true, hn, ihs, Option.map_some]
    | ap a0 a1 ns =>
      obtain ⟨ht, hlen, hall⟩ := ap_valid hg
      have h48 := d265_ap a0 ht
      have hsp := splitUnits_units ns (units ns).length
        (fun n hn => ⟨isNal265_ne_nil (hall n hn).1, (hall n hn).2⟩) (Nat.le_refl _)
      simp only [G265.encode, List.singleton_append, dec265, h48, hsp, hg, ihs, Option.map_some]
      simp
    | fu h0 h1 cs =>
      have hd := d265_fu h0
      obtain ⟨hh, hlen⟩ := fu_valid hg
      match cs, hlen with
      | c :: c' :: cs', _ =>
        have := dec265_fuTail h0 h1 (c' :: cs') (by simp) [c] (List.flatMap G265.encode gs) (by simpa using hg)
        simp only [List.reverse_cons, List.reverse_nil, List.nil_append, List.singleton_append] at this
        simp only [encode265_fu, fuPkts, List.cons_append, List.nil_append]
        rw [dec265_start _ _ _ c _ hd.1 hd.2.1 (by rw [hd.2.2.1]; exact hh)]
        rw [hd.2.2.1, hd.2.2.2.1, this, ihs]
        rfl

end WebrtcVerif.H26xWriter
