import WebrtcVerif.Model.OfferSdp
/-!
Helper lemmas about `Model/OfferSdp.lean` for the C12 theorems: the mid-assignment loop, the invariant
kept by every API call, what `generate` and the `hasLocalDescriptionChanged` retry loop guarantee.
-/
namespace WebrtcVerif.OfferSdp

/-- the two lists have the same length and corresponding elements are related -/
def All₂ {α β : Type} (R : α → β → Prop) : List α → List β → Prop
  | [], [] => True
  | a :: as, b :: bs => R a b ∧ All₂ R as bs
  | _, _ => False

theorem All₂.imp {α β : Type} {R S : α → β → Prop} (h : ∀ a b, R a b → S a b) :
    ∀ {l₁ : List α} {l₂ : List β}, All₂ R l₁ l₂ → All₂ S l₁ l₂
  | [], [], _ => trivial
  | _ :: _, _ :: _, ⟨h1, h2⟩ => ⟨h _ _ h1, All₂.imp h h2⟩
  | [], _ :: _, hf => hf.elim
  | _ :: _, [], hf => hf.elim

theorem All₂.length_eq {α β : Type} {R : α → β → Prop} :
    ∀ {l₁ : List α} {l₂ : List β}, All₂ R l₁ l₂ → l₁.length = l₂.length
  | [], [], _ => rfl
  | _ :: _, _ :: _, ⟨_, h2⟩ => by simp [All₂.length_eq h2]
  | [], _ :: _, hf => hf.elim
  | _ :: _, [], hf => hf.elim

/-- strengthen the relation with a fact about every element of the first list -/
theorem All₂.imp_mem {α β : Type} {R S : α → β → Prop} :
    ∀ {l₁ : List α} {l₂ : List β}, (∀ a ∈ l₁, ∀ b, R a b → S a b) → All₂ R l₁ l₂ → All₂ S l₁ l₂
  | [], [], _, _ => trivial
  | a :: _, _ :: _, h, ⟨h1, h2⟩ =>
    ⟨h a (by simp) _ h1, All₂.imp_mem (fun x hx => h x (by simp [hx])) h2⟩
  | [], _ :: _, _, hf => hf.elim
  | _ :: _, [], _, hf => hf.elim

/-- every element of the second list has a partner in the first -/
theorem All₂.exists_left {α β : Type} {R : α → β → Prop} :
    ∀ {l₁ : List α} {l₂ : List β}, All₂ R l₁ l₂ → ∀ b ∈ l₂, ∃ a ∈ l₁, R a b
  | [], [], _, b, hb => by simp at hb
  | a :: _, _ :: _, ⟨h1, h2⟩, b, hb => by
    simp only [List.mem_cons] at hb
    rcases hb with rfl | hb
    · exact ⟨a, by simp, h1⟩
    · obtain ⟨x, hx, hr⟩ := All₂.exists_left h2 b hb
      exact ⟨x, by simp [hx], hr⟩
  | [], _ :: _, hf, _, _ => hf.elim
  | _ :: _, [], hf, _, _ => hf.elim

theorem All₂.exists_right {α β : Type} {R : α → β → Prop} :
    ∀ {l₁ : List α} {l₂ : List β}, All₂ R l₁ l₂ → ∀ a ∈ l₁, ∃ b ∈ l₂, R a b
  | [], [], _, a, ha => by simp at ha
  | _ :: _, b :: _, ⟨h1, h2⟩, a, ha => by
    simp only [List.mem_cons] at ha
    rcases ha with rfl | ha
    · exact ⟨b, by simp, h1⟩
    · obtain ⟨x, hx, hr⟩ := All₂.exists_right h2 a ha
      exact ⟨x, by simp [hx], hr⟩
  | [], _ :: _, hf, _, _ => hf.elim
  | _ :: _, [], hf, _, _ => hf.elim

/-! ### mid assignment -/

/-- transceivers renumbered `a, a+1, …` -/
def withMids (a : Int) : List Transceiver → List Transceiver
  | [] => []
  | t :: ts => { t with mid := some a } :: withMids (a + 1) ts

/-- mids are `a, a+1, …` on a prefix and unset on the rest -/
def MidsFrom (a : Int) : List Transceiver → Prop
  | [] => True
  | t :: ts => (t.mid = some a ∧ MidsFrom (a + 1) ts) ∨ (∀ u ∈ t :: ts, u.mid = none)

/-- number of transceivers that already have a mid -/
def assigned : List Transceiver → Nat
  | [] => 0
  | t :: ts => (if t.mid.isSome then 1 else 0) + assigned ts

theorem assigned_of_all_none : ∀ (ts : List Transceiver), (∀ u ∈ ts, u.mid = none) → assigned ts = 0
  | [], _ => rfl
  | t :: ts, h => by
    have h1 : t.mid = none := h t (by simp)
    have h2 := assigned_of_all_none ts (fun u hu => h u (by simp [hu]))
    simp [assigned, h1, h2]

theorem midsFrom_of_all_none : ∀ (a : Int) (ts : List Transceiver), (∀ u ∈ ts, u.mid = none) → MidsFrom a ts
  | _, [], _ => trivial
  | _, _ :: _, h => Or.inr h

theorem withMids_length : ∀ (a : Int) (ts : List Transceiver), (withMids a ts).length = ts.length
  | _, [] => rfl
  | a, _ :: ts => by simp [withMids, withMids_length (a + 1) ts]

theorem assignMids_spec : ∀ (ts : List Transceiver) (a g : Int), MidsFrom a ts → g = a - 1 + assigned ts →
    assignMids ts g = (withMids a ts, a - 1 + ts.length)
  | [], a, g, _, hg => by simp [assignMids, withMids, assigned] at *; omega
  | t :: ts, a, g, hm, hg => by
    rcases hm with ⟨hmid, hrest⟩ | hnone
    · have ih := assignMids_spec ts (a + 1) g hrest (by simp [assigned, hmid] at hg; omega)
      have hle : ¬ a > g := by simp [assigned, hmid] at hg; omega
      have ht : ({ t with mid := some a } : Transceiver) = t := by cases t; simp_all
      simp only [assignMids, hmid, hle, if_false, ih, withMids, ht, List.length_cons]
      congr 1; push_cast; omega
    · have h1 : t.mid = none := hnone t (by simp)
      have hr : ∀ u ∈ ts, u.mid = none := fun u hu => hnone u (by simp [hu])
      have h0 : assigned (t :: ts) = 0 := assigned_of_all_none _ hnone
      obtain rfl : a = g + 1 := by rw [h0] at hg; omega
      have ih := assignMids_spec ts (g + 1 + 1) (g + 1) (midsFrom_of_all_none _ _ hr)
        (by rw [assigned_of_all_none ts hr]; omega)
      simp only [assignMids, h1, ih, withMids, List.length_cons]
      congr 1; push_cast; omega

theorem midsFrom_withMids : ∀ (a : Int) (ts : List Transceiver), MidsFrom a (withMids a ts)
  | _, [] => trivial
  | a, _ :: ts => Or.inl ⟨rfl, midsFrom_withMids (a + 1) ts⟩

theorem assigned_withMids : ∀ (a : Int) (ts : List Transceiver), assigned (withMids a ts) = ts.length
  | _, [] => rfl
  | a, _ :: ts => by simp [withMids, assigned, assigned_withMids (a + 1) ts]; omega

theorem withMids_idem : ∀ (a : Int) (ts : List Transceiver), withMids a (withMids a ts) = withMids a ts
  | _, [] => rfl
  | a, _ :: ts => by simp [withMids, withMids_idem (a + 1) ts]

/-- every mid after renumbering lies in `[a, a + length)` -/
theorem withMids_mid_range : ∀ (a : Int) (ts : List Transceiver) (t : Transceiver), t ∈ withMids a ts →
    ∃ m : Int, t.mid = some m ∧ a ≤ m ∧ m < a + ts.length
  | _, [], _, h => by simp [withMids] at h
  | a, _ :: ts, t, h => by
    simp only [withMids, List.mem_cons] at h
    rcases h with rfl | h
    · exact ⟨a, rfl, by omega, by simp; omega⟩
    · obtain ⟨m, hm, h1, h2⟩ := withMids_mid_range (a + 1) ts t h
      exact ⟨m, hm, by omega, by simp; omega⟩

/-- renumbered transceivers have pairwise different mids: equal mids, equal transceivers -/
theorem withMids_mid_inj : ∀ (a : Int) (ts : List Transceiver) (t u : Transceiver),
    t ∈ withMids a ts → u ∈ withMids a ts → t.mid = u.mid → t = u
  | _, [], _, _, h, _, _ => by simp [withMids] at h
  | a, x :: ts, t, u, ht, hu, he => by
    simp only [withMids, List.mem_cons] at ht hu
    rcases ht with rfl | ht <;> rcases hu with rfl | hu
    · rfl
    · obtain ⟨m, hm, h1, _⟩ := withMids_mid_range (a + 1) ts u hu
      simp [hm] at he; omega
    · obtain ⟨m, hm, h1, _⟩ := withMids_mid_range (a + 1) ts t ht
      simp [hm] at he; omega
    · exact withMids_mid_inj (a + 1) ts t u ht hu he

/-- renumbering only touches the mid -/
theorem withMids_forall₂ : ∀ (a : Int) (ts : List Transceiver),
    All₂ (fun t t' => t' = { t with mid := t'.mid }) ts (withMids a ts)
  | _, [] => trivial
  | a, _ :: ts => ⟨rfl, withMids_forall₂ (a + 1) ts⟩

/-! ### `MidsFrom` / `assigned` only look at the mids -/

theorem midsFrom_congr : ∀ (a : Int) (l l' : List Transceiver), l.map (·.mid) = l'.map (·.mid) →
    MidsFrom a l → MidsFrom a l'
  | _, [], [], _, _ => trivial
  | _, [], _ :: _, h, _ => by simp at h
  | _, _ :: _, [], h, _ => by simp at h
  | a, t :: ts, t' :: ts', h, hm => by
    simp only [List.map_cons, List.cons.injEq] at h
    rcases hm with ⟨h1, h2⟩ | hn
    · exact Or.inl ⟨h.1 ▸ h1, midsFrom_congr (a + 1) ts ts' h.2 h2⟩
    · refine Or.inr ?_
      have hall : ∀ m ∈ (t :: ts).map (·.mid), m = none := by
        intro m hm'
        obtain ⟨u, hu, rfl⟩ := List.mem_map.1 hm'
        exact hn u hu
      intro u hu
      apply hall
      rw [List.map_cons, h.1, h.2, ← List.map_cons]
      exact List.mem_map.2 ⟨u, hu, rfl⟩

theorem assigned_congr : ∀ (l l' : List Transceiver), l.map (·.mid) = l'.map (·.mid) → assigned l = assigned l'
  | [], [], _ => rfl
  | [], _ :: _, h => by simp at h
  | _ :: _, [], h => by simp at h
  | t :: ts, t' :: ts', h => by
    simp only [List.map_cons, List.cons.injEq] at h
    simp [assigned, h.1, assigned_congr ts ts' h.2]

theorem map_mid_set : ∀ (l : List Transceiver) (i : Nat) (t t' : Transceiver), l[i]? = some t → t'.mid = t.mid →
    (l.set i t').map (·.mid) = l.map (·.mid)
  | [], _, _, _, h, _ => by simp at h
  | x :: xs, 0, t, t', h, hm => by
    simp at h; subst h; simp [hm]
  | x :: xs, i + 1, t, t', h, hm => by
    simp at h; simp [map_mid_set xs i t t' h hm]

theorem midsFrom_append_none : ∀ (a : Int) (l : List Transceiver) (t : Transceiver), t.mid = none →
    MidsFrom a l → MidsFrom a (l ++ [t])
  | _, [], t, h, _ => Or.inr (by simpa using h)
  | a, x :: xs, t, h, hm => by
    rcases hm with ⟨h1, h2⟩ | hn
    · exact Or.inl ⟨h1, midsFrom_append_none (a + 1) xs t h h2⟩
    · refine Or.inr ?_
      show ∀ u ∈ x :: (xs ++ [t]), u.mid = none
      intro u hu
      simp only [List.mem_cons, List.mem_append, List.mem_nil_iff, or_false] at hu
      rcases hu with rfl | hu | rfl
      · exact hn _ (by simp)
      · exact hn _ (by simp [hu])
      · exact h

theorem assigned_append_none : ∀ (l : List Transceiver) (t : Transceiver), t.mid = none →
    assigned (l ++ [t]) = assigned l
  | [], t, h => by simp [assigned, h]
  | x :: xs, t, h => by simp [assigned, assigned_append_none xs t h]

/-! ### the invariant kept by every call -/

/-- an encoding as `addEncoding` makes it -/
def EncOk (e : Engine) (k : Kind) (en : Enc) : Prop :=
  en.ssrc ≠ 0 ∧ (en.rtx ≠ 0 ↔ e.rtx k = true) ∧ (en.fec ≠ 0 ↔ e.fec k = true)

def SenderOk (e : Engine) (k : Kind) (sd : Sender) : Prop :=
  sd.kind = k ∧ sd.encs ≠ [] ∧ ∀ en ∈ sd.encs, EncOk e k en

def TrOk (e : Engine) (t : Transceiver) : Prop := ∀ sd, t.sender = some sd → SenderOk e t.kind sd

structure Inv (s : St) : Prop where
  mids : MidsFrom 0 s.trs
  greater : s.greaterMid = (assigned s.trs : Int) - 1
  senders : ∀ t ∈ s.trs, TrOk s.eng t
  fresh : 0 < s.nextSsrc

theorem mkEnc_ok (e : Engine) (k : Kind) (tr : Track) (n : Nat) (hn : 0 < n) :
    EncOk e k (mkEnc e k tr n).1 ∧ 0 < (mkEnc e k tr n).2 := by
  unfold mkEnc EncOk
  cases hr : e.rtx k <;> cases hf : e.fec k <;> simp <;> omega

theorem newSender_ok (e : Engine) (tr : Track) (n : Nat) (hn : 0 < n) :
    SenderOk e tr.kind (newSender e tr n).1 ∧ 0 < (newSender e tr n).2 := by
  have h := mkEnc_ok e tr.kind tr n hn
  refine ⟨⟨by simp [newSender], by simp [newSender], ?_⟩, by simpa [newSender] using h.2⟩
  intro en hen
  simp [newSender] at hen
  subst hen
  exact h.1

theorem findReusable_spec : ∀ (k : Kind) (l : List Transceiver) (i : Nat), findReusable k l = some i →
    ∃ t, l[i]? = some t ∧ t.kind = k ∧ t.sender = none
  | _, [], _, h => by simp [findReusable] at h
  | k, t :: ts, i, h => by
    unfold findReusable at h
    split at h
    · rename_i hc
      cases h
      exact ⟨t, rfl, hc.1, hc.2⟩
    · cases hr : findReusable k ts with
      | none => simp [hr] at h
      | some j =>
        simp [hr] at h
        subst h
        obtain ⟨u, hu, h1, h2⟩ := findReusable_spec k ts j hr
        exact ⟨u, by simpa using hu, h1, h2⟩

theorem inv_congr (s s' : St) (hi : Inv s) (ht : s'.trs = s.trs) (hg : s'.greaterMid = s.greaterMid)
    (he : s'.eng = s.eng) (hn : 0 < s'.nextSsrc) : Inv s' :=
  ⟨ht ▸ hi.mids, by rw [hg, ht]; exact hi.greater, by rw [ht, he]; exact hi.senders, hn⟩

theorem inv_set (s s' : St) (i : Nat) (t t' : Transceiver) (hi : Inv s) (hget : s.trs[i]? = some t)
    (ht : s'.trs = s.trs.set i t') (hmid : t'.mid = t.mid) (hok : TrOk s.eng t')
    (hg : s'.greaterMid = s.greaterMid) (he : s'.eng = s.eng) (hn : 0 < s'.nextSsrc) : Inv s' := by
  have hm := map_mid_set s.trs i t t' hget hmid
  refine ⟨?_, ?_, ?_, hn⟩
  · rw [ht]; exact midsFrom_congr 0 _ _ hm.symm hi.mids
  · rw [hg, ht, assigned_congr _ _ hm]
    exact hi.greater
  · rw [ht, he]
    intro u hu
    rcases List.mem_or_eq_of_mem_set hu with h | rfl
    · exact hi.senders u h
    · exact hok

theorem inv_append (s s' : St) (t : Transceiver) (hi : Inv s) (hmid : t.mid = none)
    (hok : TrOk s.eng t) (ht : s'.trs = s.trs ++ [t])
    (hg : s'.greaterMid = s.greaterMid) (he : s'.eng = s.eng) (hn : 0 < s'.nextSsrc) : Inv s' := by
  refine ⟨?_, ?_, ?_, hn⟩
  · rw [ht]; exact midsFrom_append_none 0 _ _ hmid hi.mids
  · rw [hg, ht, assigned_append_none _ _ hmid]
    exact hi.greater
  · rw [ht, he]
    intro u hu
    simp only [List.mem_append, List.mem_cons, List.mem_nil_iff, or_false] at hu
    rcases hu with h | rfl
    · exact hi.senders u h
    · exact hok

theorem overrideSsrc_ok (e : Engine) (k : Kind) (sd : Sender) (ov : Nat) (h : SenderOk e k sd) :
    SenderOk e k (overrideSsrc sd ov) := by
  unfold overrideSsrc
  split
  · rename_i en hen
    split
    · rename_i hov
      refine ⟨h.1, by simp, ?_⟩
      intro x hx
      simp only [List.mem_cons, List.mem_nil_iff, or_false] at hx
      subst hx
      have := h.2.2 en (by rw [hen]; simp)
      exact ⟨hov, this.2.1, this.2.2⟩
    · exact h
  · exact h

theorem newTransceiverFromTrack_ok (e : Engine) (d : Dir) (tr : Track) (n ov : Nat) (t : Transceiver) (n' : Nat)
    (hn : 0 < n) (h : newTransceiverFromTrack e d tr n ov = .ok (t, n')) :
    t.mid = none ∧ TrOk e t ∧ 0 < n' ∧ t.kind = tr.kind ∧ t.dir = d := by
  have hs := newSender_ok e tr n hn
  unfold newTransceiverFromTrack at h
  cases d <;> simp at h
  all_goals
    obtain ⟨rfl, rfl⟩ := h
    refine ⟨rfl, ?_, hs.2, rfl, rfl⟩
    intro sd hsd
    simp at hsd
    subst hsd
    exact overrideSsrc_ok _ _ _ _ hs.1

/-! ### the `CreateOffer` loop -/

/-- the state after the mid-assignment loop of `CreateOffer` -/
def normal (s : St) : St := { s with trs := withMids 0 s.trs, greaterMid := (s.trs.length : Int) - 1 }

theorem assign_eq_normal (s : St) (hi : Inv s) : assignSt s = normal s := by
  have h := assignMids_spec s.trs 0 s.greaterMid hi.mids (by rw [hi.greater]; omega)
  unfold assignSt
  rw [h]
  simp [normal]
  omega

theorem trOk_of_mid_update (e : Engine) (t t' : Transceiver) (h : t' = { t with mid := t'.mid }) (ht : TrOk e t) :
    TrOk e t' := by
  intro sd hsd
  rw [h] at hsd ⊢
  exact ht sd hsd

theorem inv_normal (s : St) (hi : Inv s) : Inv (normal s) := by
  refine ⟨midsFrom_withMids 0 _, ?_, ?_, hi.fresh⟩
  · simp [normal, assigned_withMids]
  · intro t' ht'
    obtain ⟨t, ht, hr⟩ := (withMids_forall₂ 0 s.trs).exists_left t' ht'
    exact trOk_of_mid_update _ t t' hr (hi.senders t ht)

theorem normal_normal (s : St) : normal (normal s) = normal s := by
  simp [normal, withMids_idem, withMids_length]

theorem offerLoop_zero (s : St) (hi : Inv s) : offerLoop 0 s =
    match generate (normal s) with
    | .error e => (normal s, .error e)
    | .ok o =>
      if !changed (normal s).trs o then ({ normal s with haveOffer := true }, .ok o)
      else (normal s, .error .retries) := by
  rw [offerLoop]; simp only [assign_eq_normal s hi]; rfl

theorem offerLoop_succ (f : Nat) (s : St) (hi : Inv s) : offerLoop (f + 1) s =
    match generate (normal s) with
    | .error e => (normal s, .error e)
    | .ok o =>
      if !changed (normal s).trs o then ({ normal s with haveOffer := true }, .ok o)
      else offerLoop f (normal s) := by
  rw [offerLoop]; simp only [assign_eq_normal s hi]; rfl

/-- What a run of the loop returns: on success the renumbered state with `lastOffer` set, a description
    generated from exactly that state, which `hasLocalDescriptionChanged` accepted. -/
theorem offerLoop_spec : ∀ (fuel : Nat) (s : St), Inv s →
    match offerLoop fuel s with
    | (s', .ok o) => s' = { normal s with haveOffer := true } ∧ generate (normal s) = .ok o ∧
                      changed (normal s).trs o = false
    | (s', .error _) => s' = normal s
  | 0, s, hi => by
    rw [offerLoop_zero s hi]
    cases hg : generate (normal s) with
    | error e => simp
    | ok o =>
      cases hc : changed (normal s).trs o <;> simp [hc]
  | f + 1, s, hi => by
    rw [offerLoop_succ f s hi]
    cases hg : generate (normal s) with
    | error e => simp
    | ok o =>
      cases hc : changed (normal s).trs o with
      | false => simp [hc]
      | true =>
        simp only [hc, Bool.not_true, Bool.false_eq_true, if_false]
        have ih := offerLoop_spec f (normal s) (inv_normal s hi)
        rw [normal_normal, hg] at ih
        exact ih

theorem createOffer_ok (s s' : St) (o : Offer) (hi : Inv s) (h : createOffer s = (s', .ok o)) :
    s' = { normal s with haveOffer := true } ∧ generate (normal s) = .ok o ∧ changed (normal s).trs o = false := by
  have := offerLoop_spec 127 s hi
  unfold createOffer at h
  rw [h] at this
  exact this

theorem createOffer_err (s s' : St) (e : Err) (hi : Inv s) (h : createOffer s = (s', .error e)) :
    s' = normal s := by
  have := offerLoop_spec 127 s hi
  unfold createOffer at h
  rw [h] at this
  exact this

theorem inv_haveOffer (s : St) (b : Bool) (hi : Inv s) : Inv { s with haveOffer := b } :=
  ⟨hi.mids, hi.greater, hi.senders, hi.fresh⟩

theorem inv_createOffer (s : St) (hi : Inv s) : Inv (createOffer s).1 := by
  cases h : createOffer s with
  | mk s' r =>
    cases r with
    | ok o => rw [(createOffer_ok s s' o hi h).1]; exact inv_haveOffer _ _ (inv_normal s hi)
    | error e => rw [createOffer_err s s' e hi h]; exact inv_normal s hi

/-! ### every call keeps the invariant, the engine and the configuration -/

theorem mem_of_getElem? {α : Type} {l : List α} {i : Nat} {a : α} (h : l[i]? = some a) : a ∈ l :=
  List.mem_of_getElem? h

theorem inv_addTrack (s : St) (tr : Track) (hi : Inv s) : Inv (addTrack s tr).1 := by
  unfold addTrack
  cases hf : findReusable tr.kind s.trs with
  | some i =>
    obtain ⟨t, hget, hk, _⟩ := findReusable_spec _ _ _ hf
    have hs := newSender_ok s.eng tr s.nextSsrc hi.fresh
    simp only [hget]
    refine inv_set s _ i t _ hi hget rfl rfl ?_ rfl rfl hs.2
    intro sd hsd
    simp only [Option.some.injEq] at hsd
    subst hsd
    rw [show ({ t with sender := some (newSender s.eng tr s.nextSsrc).1, dir := dirAfterAttach t.dir } : Transceiver).kind
      = tr.kind from hk]
    exact hs.1
  | none =>
    simp only
    cases hn : newTransceiverFromTrack s.eng .sendrecv tr s.nextSsrc 0 with
    | error e => exact hi
    | ok p =>
      obtain ⟨t, n⟩ := p
      obtain ⟨h1, h2, h3, _, _⟩ := newTransceiverFromTrack_ok _ _ _ _ _ _ _ hi.fresh hn
      exact inv_append s _ t hi h1 h2 rfl rfl rfl h3

theorem inv_addKind (s : St) (k : Kind) (d : Option Dir) (ov : Nat) (hi : Inv s) :
    Inv (addTransceiverFromKind s k d ov).1 := by
  unfold addTransceiverFromKind
  generalize d.getD .sendrecv = dd
  cases dd
  case recvonly => exact inv_append s _ _ hi rfl (by intro sd h; simp at h) rfl rfl rfl hi.fresh
  case inactive => exact hi
  all_goals
    dsimp only
    split
    · split
      · rename_i t n hn
        obtain ⟨h1, h2, h3, _, _⟩ := newTransceiverFromTrack_ok _ _ _ _ _ _ _ hi.fresh hn
        exact inv_append s _ t hi h1 h2 rfl rfl rfl h3
      · exact inv_congr s _ hi rfl rfl rfl hi.fresh
    · exact hi

theorem inv_addFromTrack (s : St) (tr : Track) (d : Option Dir) (ov : Nat) (hi : Inv s) :
    Inv (addTransceiverFromTrack s tr d ov).1 := by
  unfold addTransceiverFromTrack
  cases hn : newTransceiverFromTrack s.eng (d.getD .sendrecv) tr s.nextSsrc (initSsrc d ov) with
  | error e => exact hi
  | ok p =>
    obtain ⟨t, n⟩ := p
    obtain ⟨h1, h2, h3, _, _⟩ := newTransceiverFromTrack_ok _ _ _ _ _ _ _ hi.fresh hn
    exact inv_append s _ t hi h1 h2 rfl rfl rfl h3

theorem sender_addEncoding_ok (e : Engine) (k : Kind) (sd sd' : Sender) (tr : Track) (n n' : Nat)
    (hs : SenderOk e k sd) (hn : 0 < n) (h : sd.addEncoding e tr n = .ok (sd', n')) :
    SenderOk e k sd' ∧ 0 < n' := by
  unfold Sender.addEncoding at h
  split at h; · cases h
  split at h; · cases h
  split at h; · cases h
  split at h; · cases h
  split at h; · cases h
  split at h; · cases h
  have hm := mkEnc_ok e sd.kind tr n hn
  simp only [Except.ok.injEq, Prod.mk.injEq] at h
  obtain ⟨rfl, rfl⟩ := h
  refine ⟨⟨hs.1, by simp, ?_⟩, hm.2⟩
  intro en hen
  simp only [List.mem_append, List.mem_cons, List.mem_nil_iff, or_false] at hen
  rcases hen with h | rfl
  · exact hs.2.2 en h
  · rw [← hs.1]; exact hm.1

theorem inv_addEncoding (s : St) (i : Nat) (tr : Track) (hi : Inv s) : Inv (addEncoding s i tr).1 := by
  unfold addEncoding
  cases hget : s.trs[i]? with
  | none => exact hi
  | some t =>
    simp only
    cases hsd : t.sender with
    | none => exact hi
    | some sd =>
      simp only
      cases ha : sd.addEncoding s.eng tr s.nextSsrc with
      | error e => exact hi
      | ok p =>
        obtain ⟨sd', n⟩ := p
        have hok := sender_addEncoding_ok s.eng t.kind sd sd' tr _ n
          (hi.senders t (mem_of_getElem? hget) sd hsd) hi.fresh ha
        dsimp only
        refine inv_set s _ i t _ hi hget rfl rfl ?_ rfl rfl hok.2
        intro x hx
        simp only [Option.some.injEq] at hx
        subst hx
        exact hok.1

theorem trOk_no_sender (e : Engine) (t : Transceiver) (h : t.sender = none) : TrOk e t := by
  intro sd hsd; rw [h] at hsd; cases hsd

theorem inv_removeTrack (s : St) (i : Nat) (hi : Inv s) : Inv (removeTrack s i).1 := by
  unfold removeTrack
  cases hget : s.trs[i]? with
  | none => exact hi
  | some t =>
    simp only
    cases hsd : t.sender with
    | none => exact hi
    | some sd =>
      simp only
      cases t.dir <;> dsimp only <;>
        exact inv_set s _ i t _ hi hget rfl rfl (trOk_no_sender _ _ rfl) rfl rfl hi.fresh

theorem sender_replaceTrack_ok (e : Engine) (k : Kind) (sd sd' : Sender) (tr : Option Track)
    (hs : SenderOk e k sd) (h : sd.replaceTrack tr = .ok sd') : SenderOk e k sd' := by
  have key : ∀ f : Enc → Enc, (∀ en, (f en).ssrc = en.ssrc ∧ (f en).rtx = en.rtx ∧ (f en).fec = en.fec) →
      SenderOk e k { sd with encs := sd.encs.map f } := by
    intro f hf
    refine ⟨hs.1, by simpa using hs.2.1, ?_⟩
    intro en hen
    obtain ⟨x, hx, rfl⟩ := List.mem_map.1 hen
    have := hs.2.2 x hx
    unfold EncOk at this ⊢
    rw [(hf x).1, (hf x).2.1, (hf x).2.2]
    exact this
  unfold Sender.replaceTrack at h
  cases tr with
  | none =>
    simp only [Except.ok.injEq] at h
    subst h
    exact key _ (fun _ => ⟨rfl, rfl, rfl⟩)
  | some t =>
    simp only at h
    split at h; · cases h
    split at h; · cases h
    simp only [Except.ok.injEq] at h
    subst h
    exact key _ (fun _ => ⟨rfl, rfl, rfl⟩)

theorem inv_replaceTrack (s : St) (i : Nat) (tr : Option Track) (hi : Inv s) : Inv (replaceTrack s i tr).1 := by
  unfold replaceTrack
  cases hget : s.trs[i]? with
  | none => exact hi
  | some t =>
    simp only
    cases hsd : t.sender with
    | none => exact hi
    | some sd =>
      simp only
      cases ha : sd.replaceTrack tr with
      | error e => exact hi
      | ok sd' =>
        have hok := sender_replaceTrack_ok s.eng t.kind sd sd' tr
          (hi.senders t (mem_of_getElem? hget) sd hsd) ha
        dsimp only
        refine inv_set s _ i t _ hi hget rfl rfl ?_ rfl rfl hi.fresh
        intro x hx
        simp only [Option.some.injEq] at hx
        subst hx
        exact hok

theorem inv_stop (s : St) (i : Nat) (hi : Inv s) : Inv (stopTransceiver s i).1 := by
  unfold stopTransceiver
  cases hget : s.trs[i]? with
  | none => exact hi
  | some t =>
    dsimp only
    refine inv_set s _ i t _ hi hget rfl rfl ?_ rfl rfl hi.fresh
    intro x hx
    cases hsd : t.sender with
    | none => simp [hsd] at hx
    | some sd =>
      simp [hsd] at hx
      subst hx
      have := hi.senders t (mem_of_getElem? hget) sd hsd
      exact ⟨this.1, this.2.1, this.2.2⟩

theorem inv_step (s : St) (op : Op) (hi : Inv s) : Inv (step s op).1 := by
  cases op with
  | addTrack tr => exact inv_addTrack s tr hi
  | addKind k d ov => exact inv_addKind s k d ov hi
  | addFromTrack tr d ov => exact inv_addFromTrack s tr d ov hi
  | addEncoding i tr => exact inv_addEncoding s i tr hi
  | removeTrack i => exact inv_removeTrack s i hi
  | replaceTrack i tr => exact inv_replaceTrack s i tr hi
  | stop i => exact inv_stop s i hi
  | dataChannel b =>
    simp only [step, createDataChannel]
    split
    · exact hi
    · exact inv_congr s _ hi rfl rfl rfl hi.fresh
  | offer =>
    have := inv_createOffer s hi
    simp only [step]
    split <;> rename_i h <;> rw [h] at this <;> exact this
  | setLocal =>
    simp only [step]
    split
    · exact hi
    · split
      · exact hi
      · exact inv_congr s _ hi rfl rfl rfl hi.fresh

theorem inv_init (e : Engine) (a : Bool) : Inv (init e a) :=
  ⟨trivial, rfl, by intro t ht; simp [init] at ht, by simp [init]⟩

theorem inv_runOps : ∀ (ops : List Op) (s : St), Inv s → Inv (runOps s ops).1
  | [], _, hi => hi
  | op :: ops, s, hi => inv_runOps ops _ (inv_step s op hi)

/-! ### what `generate` writes -/

theorem sectionsOf_all₂ (e : Engine) : ∀ (ts : List Transceiver) (secs : List Section),
    sectionsOf e ts = .ok secs → All₂ (fun t sec => transceiverSection e t = .ok sec) ts secs
  | [], secs, h => by
    simp [sectionsOf] at h; subst h; trivial
  | t :: ts, secs, h => by
    unfold sectionsOf at h
    cases ht : transceiverSection e t with
    | error err => simp [ht] at h
    | ok sec =>
      cases hr : sectionsOf e ts with
      | error err => simp [ht, hr] at h
      | ok rest =>
        simp [ht, hr] at h
        subst h
        exact ⟨ht, sectionsOf_all₂ e ts rest hr⟩

/-- a section that is not the bare rejected line carries the transceiver's mid, kind and direction, and
    exists only when the engine has a codec for the kind -/
theorem section_basic (e : Engine) (t : Transceiver) (sec : Section) (h : transceiverSection e t = .ok sec)
    (hr : sec.rejected = false) :
    sec.mid = t.mid ∧ sec.kind = t.kind ∧ sec.dirs = [t.dir] ∧ e.hasCodecs t.kind = true := by
  unfold transceiverSection at h
  split at h
  · rename_i hc
    split at h
    · cases h; exact ⟨rfl, rfl, rfl, hc⟩
    · split at h
      · cases h; exact ⟨rfl, rfl, rfl, hc⟩
      · cases h; exact ⟨rfl, rfl, rfl, hc⟩
  · split at h
    · cases h
    · cases h; simp at hr

theorem generate_ok (s : St) (o : Offer) (h : generate s = .ok o) :
    sectionsOf s.eng s.trs = .ok o.media ∧
    o.app = (if s.always || s.dcRequested != 0 then some (s.trs.length : Int) else none) := by
  unfold generate at h
  split at h
  · cases h
  · rename_i media hs
    cases h
    exact ⟨hs, rfl⟩

theorem lookupDir_some (o : Offer) (mid : Option Int) (d : Option Dir) (h : lookupDir o mid = some d) :
    (∃ sec ∈ o.media, sec.rejected = false ∧ sec.mid = mid ∧ d = sec.dirs.head?) ∨
    (o.app.isSome = true ∧ o.app = mid ∧ d = some .sendrecv) := by
  unfold lookupDir at h
  cases hf : o.media.find? (fun sec => !sec.rejected && sec.mid == mid) with
  | some sec =>
    simp only [hf, Option.some.injEq] at h
    have hp := List.find?_some hf
    simp only [Bool.and_eq_true, Bool.not_eq_true', beq_iff_eq] at hp
    exact Or.inl ⟨sec, List.mem_of_find?_eq_some hf, hp.1, hp.2, h.symm⟩
  | none =>
    simp only [hf] at h
    split at h
    · rename_i hc
      simp only [Bool.and_eq_true, beq_iff_eq] at hc
      simp only [Option.some.injEq] at h
      exact Or.inr ⟨hc.1, hc.2, h.symm⟩
    · cases h

theorem changed_false (ts : List Transceiver) (o : Offer) (h : changed ts o = false) :
    ∀ t ∈ ts, lookupDir o t.mid = some (some t.dir) := by
  intro t ht
  unfold changed at h
  have := (List.any_eq_false.1 h) t ht
  cases hl : lookupDir o t.mid with
  | none => simp [hl] at this
  | some d => simpa [hl] using this

/-- `hasLocalDescriptionChanged` accepted the description, hence no section is the bare rejected line -/
theorem no_rejected (s : St) (o : Offer) (hg : generate (normal s) = .ok o)
    (hc : changed (normal s).trs o = false) :
    ∀ t ∈ (normal s).trs, ∀ sec, transceiverSection s.eng t = .ok sec → sec.rejected = false := by
  intro t ht sec hsec
  obtain ⟨hsecs, happ⟩ := generate_ok _ _ hg
  have hall := sectionsOf_all₂ _ _ _ hsecs
  have hl := changed_false _ _ hc t ht
  rcases lookupDir_some _ _ _ hl with ⟨sec', hmem, hrej, hmid, _⟩ | ⟨hsome, happmid, _⟩
  · obtain ⟨t', ht', hsec'⟩ := hall.exists_left sec' hmem
    have hb := section_basic _ _ _ hsec' hrej
    have : t' = t := withMids_mid_inj 0 s.trs t' t ht' ht (by rw [← hb.1, hmid])
    subst this
    have hn : (normal s).eng = s.eng := rfl
    rw [hn, hsec] at hsec'
    cases hsec'
    exact hrej
  · exfalso
    obtain ⟨m, hm, _, hlt⟩ := withMids_mid_range 0 s.trs t ht
    rw [happ] at happmid hsome
    split at happmid
    · rw [hm] at happmid
      simp only [Option.some.injEq] at happmid
      have : ((normal s).trs.length : Int) = s.trs.length := by simp [normal, withMids_length]
      omega
    · rw [hm] at happmid
      cases happmid

/-- content of a non-rejected section as far as the sender is concerned -/
theorem section_sender (e : Engine) (t : Transceiver) (sec : Section) (h : transceiverSection e t = .ok sec)
    (hr : sec.rejected = false) :
    match t.sender.bind Sender.track, t.sender with
    | some tr, some sd =>
      sec.msids = sd.params.map (fun _ => (tr.stream, tr.id)) ∧
      sec.sources = sd.params.flatMap (encSources tr) ∧
      sec.groups = sd.params.flatMap encGroups ∧
      sec.rids = (if sd.params.length > 1 then sd.params.map (·.rid) else []) ∧
      sec.simulcast = (if sd.params.length > 1 then some (sd.params.map (·.rid)) else none)
    | _, _ => sec.msids = [] ∧ sec.sources = [] ∧ sec.groups = [] ∧ sec.rids = [] ∧ sec.simulcast = none := by
  unfold transceiverSection at h
  split at h
  · cases hs : t.sender with
    | none => simp [hs] at h ⊢; subst h; simp
    | some sd =>
      cases htr : sd.track with
      | none => simp [hs, htr] at h ⊢; subst h; simp
      | some tr => simp [hs, htr] at h ⊢; subst h; simp
  · split at h
    · cases h
    · cases h; simp at hr

/-! ### when `CreateOffer` succeeds -/

theorem transceiverSection_ok (e : Engine) (t : Transceiver) (h : e.hasCodecs t.kind = true) :
    ∃ sec, transceiverSection e t = .ok sec ∧ sec.rejected = false := by
  unfold transceiverSection
  simp only [h, if_true]
  split
  · exact ⟨_, rfl, rfl⟩
  · split
    · exact ⟨_, rfl, rfl⟩
    · exact ⟨_, rfl, rfl⟩

theorem sectionsOf_ok (e : Engine) : ∀ (ts : List Transceiver), (∀ t ∈ ts, e.hasCodecs t.kind = true) →
    ∃ secs, sectionsOf e ts = .ok secs
  | [], _ => ⟨[], rfl⟩
  | t :: ts, h => by
    obtain ⟨sec, hsec, _⟩ := transceiverSection_ok e t (h t (by simp))
    obtain ⟨secs, hsecs⟩ := sectionsOf_ok e ts (fun u hu => h u (by simp [hu]))
    exact ⟨sec :: secs, by simp [sectionsOf, hsec, hsecs]⟩

theorem withMids_kind {P : Kind → Prop} (a : Int) (ts : List Transceiver) (h : ∀ t ∈ ts, P t.kind) :
    ∀ t ∈ withMids a ts, P t.kind := by
  intro t' ht'
  obtain ⟨t, ht, hr⟩ := (withMids_forall₂ a ts).exists_left t' ht'
  rw [hr]
  exact h t ht

/-- with a codec for every transceiver's kind the description is generated and accepted at the first attempt -/
theorem offer_accepted (s : St) (h : ∀ t ∈ s.trs, s.eng.hasCodecs t.kind = true) :
    ∃ o, generate (normal s) = .ok o ∧ changed (normal s).trs o = false := by
  have hk : ∀ t ∈ (normal s).trs, (normal s).eng.hasCodecs t.kind = true :=
    withMids_kind (P := fun k => s.eng.hasCodecs k = true) 0 s.trs h
  obtain ⟨secs, hsecs⟩ := sectionsOf_ok (normal s).eng (normal s).trs hk
  have hall := sectionsOf_all₂ _ _ _ hsecs
  have hgen : ∃ o, generate (normal s) = .ok o ∧ o.media = secs := by
    simp only [generate, hsecs]
    exact ⟨_, rfl, rfl⟩
  obtain ⟨o, hgo, hmedia⟩ := hgen
  subst hmedia
  refine ⟨o, hgo, ?_⟩
  unfold changed
  apply List.any_eq_false.2
  intro t ht
  obtain ⟨sec, hmem, hsec⟩ := hall.exists_right t ht
  obtain ⟨sec0, hsec0, hrej0⟩ := transceiverSection_ok _ t (hk t ht)
  rw [hsec] at hsec0; cases hsec0
  have hb := section_basic _ _ _ hsec hrej0
  have hfound : (o.media.find? (fun x => !x.rejected && x.mid == t.mid)).isSome = true := by
    rw [List.find?_isSome]
    exact ⟨sec, hmem, by simp [hrej0, hb.1]⟩
  cases hf : o.media.find? (fun x => !x.rejected && x.mid == t.mid) with
  | none => rw [hf] at hfound; cases hfound
  | some sec' =>
    have hp := List.find?_some hf
    simp only [Bool.and_eq_true, Bool.not_eq_true', beq_iff_eq] at hp
    obtain ⟨t', ht', hsec'⟩ := hall.exists_left sec' (List.mem_of_find?_eq_some hf)
    have hb' := section_basic _ _ _ hsec' hp.1
    have : t' = t := withMids_mid_inj 0 s.trs t' t ht' ht (by rw [← hb'.1, hp.2])
    subst this
    simp [lookupDir, hf, hb'.2.2.1]

/-! ### frame: the engine, the configuration flag and the data-channel counter -/

theorem offerLoop_frame : ∀ (fuel : Nat) (s : St),
    (offerLoop fuel s).1.eng = s.eng ∧ (offerLoop fuel s).1.always = s.always ∧
    (offerLoop fuel s).1.dcRequested = s.dcRequested
  | 0, s => by
    rw [offerLoop]
    split
    · exact ⟨rfl, rfl, rfl⟩
    · split <;> exact ⟨rfl, rfl, rfl⟩
  | f + 1, s => by
    rw [offerLoop]
    split
    · exact ⟨rfl, rfl, rfl⟩
    · split
      · exact ⟨rfl, rfl, rfl⟩
      · exact offerLoop_frame f (assignSt s)

/-- `SetLocalDescription(offer)` only moves the signaling state, which `CreateOffer` never reads -/
theorem offerLoop_localOffer (b : Bool) : ∀ (fuel : Nat) (s : St),
    offerLoop fuel { s with localOffer := b } =
      ({ (offerLoop fuel s).1 with localOffer := b }, (offerLoop fuel s).2)
  | 0, s => by
    rw [offerLoop, offerLoop]
    have h1 : assignSt { s with localOffer := b } = { assignSt s with localOffer := b } := rfl
    have h2 : generate { assignSt s with localOffer := b } = generate (assignSt s) := rfl
    simp only [h1, h2]
    split
    · rfl
    · split <;> rfl
  | f + 1, s => by
    rw [offerLoop, offerLoop]
    have h1 : assignSt { s with localOffer := b } = { assignSt s with localOffer := b } := rfl
    have h2 : generate { assignSt s with localOffer := b } = generate (assignSt s) := rfl
    simp only [h1, h2]
    split
    · rfl
    · split
      · rfl
      · exact offerLoop_localOffer b f (assignSt s)

/-- the call is a `CreateDataChannel` that returned a channel -/
def dcCreated : Op → Res → Bool
  | .dataChannel _, .ok => true
  | _, _ => false

theorem step_frame (s : St) (op : Op) :
    (step s op).1.eng = s.eng ∧ (step s op).1.always = s.always ∧
    (step s op).1.dcRequested = s.dcRequested + (if dcCreated op (step s op).2 then 1 else 0) := by
  cases op with
  | addTrack tr =>
    simp only [step, addTrack]
    repeat' split
    all_goals simp_all [dcCreated]
  | addKind k d ov =>
    simp only [step, addTransceiverFromKind]
    repeat' split
    all_goals simp_all [dcCreated]
  | addFromTrack tr d ov =>
    simp only [step, addTransceiverFromTrack]
    repeat' split
    all_goals simp_all [dcCreated]
  | addEncoding i tr =>
    simp only [step, addEncoding]
    repeat' split
    all_goals simp_all [dcCreated]
  | removeTrack i =>
    simp only [step, removeTrack]
    repeat' split
    all_goals simp_all [dcCreated]
  | replaceTrack i tr =>
    simp only [step, replaceTrack]
    repeat' split
    all_goals simp_all [dcCreated]
  | stop i =>
    simp only [step, stopTransceiver]
    repeat' split
    all_goals simp_all [dcCreated]
  | dataChannel b =>
    simp only [step, createDataChannel]
    split <;> simp [dcCreated]
  | offer =>
    have h := offerLoop_frame 127 s
    simp only [step, createOffer]
    split <;> rename_i h' <;> rw [h'] at h <;> simpa [dcCreated] using h
  | setLocal =>
    simp only [step]
    repeat' split
    all_goals simp_all [dcCreated]

/-- number of data channels the history created -/
def dcCount : List Op → List Res → Nat
  | op :: ops, r :: rs => (if dcCreated op r then 1 else 0) + dcCount ops rs
  | _, _ => 0

theorem runOps_frame : ∀ (ops : List Op) (s : St),
    (runOps s ops).1.eng = s.eng ∧ (runOps s ops).1.always = s.always ∧
    (runOps s ops).1.dcRequested = s.dcRequested + dcCount ops (runOps s ops).2
  | [], s => by simp [runOps, dcCount]
  | op :: ops, s => by
    have h1 := step_frame s op
    have h2 := runOps_frame ops (step s op).1
    simp only [runOps, dcCount]
    refine ⟨by rw [h2.1, h1.1], by rw [h2.2.1, h1.2.1], ?_⟩
    rw [h2.2.2, h1.2.2]
    omega

/-! ### SSRCs stay with their sender -/

/-- the SSRC triples (primary, RTX, FEC) of a sender's encodings, in order -/
def Sender.ssrcs (sd : Sender) : List (Nat × Nat × Nat) := sd.encs.map fun e => (e.ssrc, e.rtx, e.fec)

/-- `Keeps ts ts'`: wherever both lists have a transceiver with a sender at the same position, the old
    sender's SSRC triples are a prefix of the new one's -/
def Keeps (ts ts' : List Transceiver) : Prop :=
  ∀ (i : Nat) (t t' : Transceiver) (sd sd' : Sender), ts[i]? = some t → ts'[i]? = some t' →
    t.sender = some sd → t'.sender = some sd' → sd.ssrcs <+: sd'.ssrcs

theorem keeps_refl (ts : List Transceiver) : Keeps ts ts := by
  intro i t t' sd sd' h h' hs hs'
  rw [h] at h'; cases h'
  rw [hs] at hs'; cases hs'
  exact List.prefix_refl _

theorem keeps_set (ts : List Transceiver) (j : Nat) (tj x : Transceiver) (hj : ts[j]? = some tj)
    (hx : ∀ sd sd', tj.sender = some sd → x.sender = some sd' → sd.ssrcs <+: sd'.ssrcs) :
    Keeps ts (ts.set j x) := by
  intro i t t' sd sd' h h' hs hs'
  rw [List.getElem?_set] at h'
  split at h'
  · rename_i hij
    subst hij
    split at h'
    · cases h'
      rw [hj] at h; cases h
      exact hx sd sd' hs hs'
    · cases h'
  · rw [h] at h'; cases h'
    rw [hs] at hs'; cases hs'
    exact List.prefix_refl _

theorem keeps_append (ts : List Transceiver) (x : Transceiver) : Keeps ts (ts ++ [x]) := by
  intro i t t' sd sd' h h' hs hs'
  have hi : i < ts.length := by
    rcases Nat.lt_or_ge i ts.length with h1 | h1
    · exact h1
    · rw [List.getElem?_eq_none h1] at h; cases h
  rw [List.getElem?_append_left hi, h] at h'
  cases h'
  rw [hs] at hs'; cases hs'
  exact List.prefix_refl _

theorem withMids_getElem? : ∀ (a : Int) (ts : List Transceiver) (i : Nat) (t' : Transceiver),
    (withMids a ts)[i]? = some t' → ∃ t, ts[i]? = some t ∧ t'.sender = t.sender
  | _, [], _, _, h => by simp [withMids] at h
  | a, t :: ts, 0, t', h => by
    simp [withMids] at h; subst h; exact ⟨t, rfl, rfl⟩
  | a, t :: ts, i + 1, t', h => by
    simp only [withMids, List.getElem?_cons_succ] at h
    obtain ⟨u, hu, hs⟩ := withMids_getElem? (a + 1) ts i t' h
    exact ⟨u, by simpa using hu, hs⟩

theorem keeps_withMids (a : Int) (ts : List Transceiver) : Keeps ts (withMids a ts) := by
  intro i t t' sd sd' h h' hs hs'
  obtain ⟨u, hu, hsu⟩ := withMids_getElem? a ts i t' h'
  rw [h] at hu; cases hu
  rw [hsu, hs] at hs'; cases hs'
  exact List.prefix_refl _

theorem keeps_trans_normal (s : St) : Keeps s.trs (normal s).trs := keeps_withMids 0 s.trs

theorem keeps_createOffer (s : St) (hi : Inv s) : Keeps s.trs (createOffer s).1.trs := by
  cases h : createOffer s with
  | mk s' r =>
    cases r with
    | ok o => rw [(createOffer_ok s s' o hi h).1]; exact keeps_trans_normal s
    | error e => rw [createOffer_err s s' e hi h]; exact keeps_trans_normal s

theorem replaceTrack_ssrcs (sd sd' : Sender) (tr : Option Track) (h : sd.replaceTrack tr = .ok sd') :
    sd'.ssrcs = sd.ssrcs := by
  unfold Sender.replaceTrack at h
  cases tr with
  | none => simp only [Except.ok.injEq] at h; subst h; simp [Sender.ssrcs, List.map_map, Function.comp_def]
  | some t =>
    simp only at h
    split at h; · cases h
    split at h; · cases h
    simp only [Except.ok.injEq] at h; subst h; simp [Sender.ssrcs, List.map_map, Function.comp_def]

theorem addEncoding_ssrcs (e : Engine) (sd sd' : Sender) (tr : Track) (n n' : Nat)
    (h : sd.addEncoding e tr n = .ok (sd', n')) : sd.ssrcs <+: sd'.ssrcs := by
  unfold Sender.addEncoding at h
  split at h; · cases h
  split at h; · cases h
  split at h; · cases h
  split at h; · cases h
  split at h; · cases h
  split at h; · cases h
  simp only [Except.ok.injEq, Prod.mk.injEq] at h
  obtain ⟨rfl, rfl⟩ := h
  simp [Sender.ssrcs]

/-- Every call keeps the SSRCs of every sender that stays attached: the SSRCs an offer announced are the
    ones the sender has (and reports through `GetParameters`) for as long as it exists; `AddEncoding` only
    appends. -/
theorem step_keeps (s : St) (op : Op) (hi : Inv s) : Keeps s.trs (step s op).1.trs := by
  cases op with
  | addTrack tr =>
    simp only [step, addTrack]
    cases hf : findReusable tr.kind s.trs with
    | some i =>
      obtain ⟨t, hget, _, hnone⟩ := findReusable_spec _ _ _ hf
      simp only [hget]
      exact keeps_set _ _ t _ hget (fun sd sd' h _ => by rw [hnone] at h; cases h)
    | none =>
      simp only
      split
      · exact keeps_append _ _
      · exact keeps_refl _
  | addKind k d ov =>
    simp only [step, addTransceiverFromKind]
    repeat' split
    all_goals first | exact keeps_append _ _ | exact keeps_refl _
  | addFromTrack tr d ov =>
    simp only [step, addTransceiverFromTrack]
    split
    · exact keeps_append _ _
    · exact keeps_refl _
  | addEncoding i tr =>
    simp only [step, addEncoding]
    cases hget : s.trs[i]? with
    | none => exact keeps_refl _
    | some t =>
      simp only
      cases hsd : t.sender with
      | none => exact keeps_refl _
      | some sd =>
        simp only
        cases ha : sd.addEncoding s.eng tr s.nextSsrc with
        | error e => exact keeps_refl _
        | ok p =>
          obtain ⟨sd', n⟩ := p
          refine keeps_set _ _ t _ hget ?_
          intro x x' hx hx'
          rw [hsd] at hx; cases hx
          simp only [Option.some.injEq] at hx'; subst hx'
          exact addEncoding_ssrcs _ _ _ _ _ _ ha
  | removeTrack i =>
    simp only [step, removeTrack]
    cases hget : s.trs[i]? with
    | none => exact keeps_refl _
    | some t =>
      simp only
      cases hsd : t.sender with
      | none => exact keeps_refl _
      | some sd =>
        simp only
        cases t.dir <;> exact keeps_set _ _ t _ hget (fun _ _ _ h => by simp at h)
  | replaceTrack i tr =>
    simp only [step, replaceTrack]
    cases hget : s.trs[i]? with
    | none => exact keeps_refl _
    | some t =>
      simp only
      cases hsd : t.sender with
      | none => exact keeps_refl _
      | some sd =>
        simp only
        cases ha : sd.replaceTrack tr with
        | error e => exact keeps_refl _
        | ok sd' =>
          refine keeps_set _ _ t _ hget ?_
          intro x x' hx hx'
          rw [hsd] at hx; cases hx
          simp only [Option.some.injEq] at hx'; subst hx'
          rw [replaceTrack_ssrcs _ _ _ ha]
          exact List.prefix_refl _
  | stop i =>
    simp only [step, stopTransceiver]
    cases hget : s.trs[i]? with
    | none => exact keeps_refl _
    | some t =>
      refine keeps_set _ _ t _ hget ?_
      intro x x' hx hx'
      rw [hx] at hx'
      simp only [Option.map_some, Option.some.injEq] at hx'
      subst hx'
      exact List.prefix_refl _
  | dataChannel b =>
    simp only [step, createDataChannel]
    split <;> exact keeps_refl _
  | offer =>
    have := keeps_createOffer s hi
    simp only [step]
    split <;> rename_i h <;> rw [h] at this <;> exact this
  | setLocal =>
    simp only [step]
    repeat' split
    all_goals exact keeps_refl _

end WebrtcVerif.OfferSdp
