import WebrtcVerif.Model.OfferSdp
/-!
Helper lemmas about `Model/OfferSdp.lean` for the C12 theorems: the mid-assignment loop, the invariant
kept by every API call, what `generate` and the `hasLocalDescriptionChanged` retry loop guarantee.
-/
namespace WebrtcVerif.OfferSdp

/-- the two lists have the same length and corresponding elements are related -/
def All₂ {α β : Type} (R : α → β → Prop) : List α → List β → Prop
  | [], [] => True
  | a :: as, b :: bs => R a b ∧ All₂ R as bs
  | _, _ => False

theorem All₂.imp {α β : Type} {R S : α → β → Prop} (h : ∀ a b, R a b → S a b) :
    ∀ {l₁ : List α} {l₂ : List β}, All₂ R l₁ l₂ → All₂ S l₁ l₂
  | [], [], _ => trivial
  | _ :: _, _ :: _, ⟨h1, h2⟩ => ⟨h _ _ h1, All₂.imp h h2⟩
  | [], _ :: _, hf => hf.elim
  | _ :: _, [], hf => hf.elim

theorem All₂.length_eq {α β : Type} {R : α → β → Prop} :
    ∀ {l₁ : List α} {l₂ : List β}, All₂ R l₁ l₂ → l₁.length = l₂.length
  | [], [], _ => rfl
  | _ :: _, _ :: _, ⟨_, h2⟩ => by simp [All₂.length_eq h2]
  | [], _ :: _, hf => hf.elim
  | _ :: _, [], hf => hf.elim

/-- strengthen the relation with a fact about every element of the first list -/
theorem All₂.imp_mem {α β : Type} {R S : α → β → Prop} :
    ∀ {l₁ : List α} {l₂ : List β}, (∀ a ∈ l₁, ∀ b, R a b → S a b) → All₂ R l₁ l₂ → All₂ S l₁ l₂
  | [], [], _, _ => trivial
  | a :: _, _ :: _, h, ⟨h1, h2⟩ =>
    ⟨h a (by simp) _ h1, All₂.imp_mem (fun x hx => h x (by simp [hx])) h2⟩
  | [], _ :: _, _, hf => hf.elim
  | _ :: _, [], _, hf => hf.elim

/-- every element of the second list has a partner in the first -/
theorem All₂.exists_left {α β : Type} {R : α → β → Prop} :
    ∀ {l₁ : List α} {l₂ : List β}, All₂ R l₁ l₂ → ∀ b ∈ l₂, ∃ a ∈ l₁, R a b
  | [], [], _, b, hb => by simp at hb
  | a :: _, _ :: _, ⟨h1, h2⟩, b, hb => by
    simp only [List.mem_cons] at hb
    rcases hb with rfl | hb
    · exact ⟨a, by simp, h1⟩
    · obtain ⟨x, hx, hr⟩ := All₂.exists_left h2 b hb
      exact ⟨x, by simp [hx], hr⟩
  | [], _ :: _, hf, _, _ => hf.elim
  | _ :: _, [], hf, _, _ => hf.elim

theorem All₂.exists_right {α β : Type} {R : α → β → Prop} :
    ∀ {l₁ : List α} {l₂ : List β}, All₂ R l₁ l₂ → ∀ a ∈ l₁, ∃ b ∈ l₂, R a b
  | [], [], _, a, ha => by simp at ha
  | _ :: _, b :: _, ⟨h1, h2⟩, a, ha => by
    simp only [List.mem_cons] at ha
    rcases ha with rfl | ha
    · exact ⟨b, by simp, h1⟩
    · obtain ⟨x, hx, hr⟩ := All₂.exists_right h2 a ha
      exact ⟨x, by simp [hx], hr⟩
  | [], _ :: _, hf, _, _ => hf.elim
  | _ :: _, [], hf, _, _ => hf.elim

theorem All₂.getElem? {α β : Type} {R : α → β → Prop} :
    ∀ {l₁ : List α} {l₂ : List β}, All₂ R l₁ l₂ → ∀ (i : Nat) (a : α) (b : β), l₁[i]? = some a → l₂[i]? = some b → R a b
  | [], [], _, i, a, _, h, _ => by simp at h
  | x :: _, y :: _, ⟨h1, _⟩, 0, a, b, ha, hb => by
    simp at ha hb; subst ha; subst hb; exact h1
  | _ :: _, _ :: _, ⟨_, h2⟩, i + 1, a, b, ha, hb => by
    simp only [List.getElem?_cons_succ] at ha hb
    exact All₂.getElem? h2 i a b ha hb
  | [], _ :: _, hf, _, _, _, _, _ => hf.elim
  | _ :: _, [], hf, _, _, _, _, _ => hf.elim

/-! ### mid assignment -/

/-- mids are strictly increasing (and above `lo`) on a prefix of the list and unset on the rest -/
def Sorted (lo : Int) : List Transceiver → Prop
  | [] => True
  | t :: ts => (∃ m, t.mid = some m ∧ lo < m ∧ Sorted m ts) ∨ (∀ u ∈ t :: ts, u.mid = none)

/-- every mid in use is at most `g` -/
def Bounded (g : Int) (ts : List Transceiver) : Prop := ∀ t ∈ ts, ∀ m, t.mid = some m → m ≤ g

theorem sorted_of_all_none : ∀ (lo : Int) (ts : List Transceiver), (∀ u ∈ ts, u.mid = none) → Sorted lo ts
  | _, [], _ => trivial
  | _, _ :: _, h => Or.inr h

theorem sorted_gt : ∀ (lo : Int) (ts : List Transceiver), Sorted lo ts → ∀ u ∈ ts, ∀ x, u.mid = some x → lo < x
  | _, [], _, u, hu, _, _ => by simp at hu
  | lo, t :: ts, h, u, hu, x, hx => by
    rcases h with ⟨m, hm, hlt, hrest⟩ | hn
    · simp only [List.mem_cons] at hu
      rcases hu with rfl | hu
      · rw [hm] at hx; cases hx; exact hlt
      · have := sorted_gt m ts hrest u hu x hx
        omega
    · rw [hn u hu] at hx; cases hx

/-- different positions of a sorted list carry different mids: equal (set) mids, equal transceivers -/
theorem sorted_inj : ∀ (lo : Int) (ts : List Transceiver), Sorted lo ts → ∀ t ∈ ts, ∀ u ∈ ts,
    t.mid = u.mid → t.mid.isSome = true → t = u
  | _, [], _, t, ht, _, _, _, _ => by simp at ht
  | lo, x :: ts, h, t, ht, u, hu, he, hs => by
    rcases h with ⟨m, hm, _, hrest⟩ | hn
    · simp only [List.mem_cons] at ht hu
      rcases ht with rfl | ht <;> rcases hu with rfl | hu
      · rfl
      · exfalso
        have := sorted_gt m ts hrest u hu m (by rw [← he, hm])
        omega
      · exfalso
        have := sorted_gt m ts hrest t ht m (by rw [he, hm])
        omega
      · exact sorted_inj m ts hrest t ht u hu he hs
    · rw [hn t ht] at hs; cases hs

theorem raiseMid_ge (g : Int) (m : Option Int) : g ≤ raiseMid g m := by
  cases m with
  | none => simp [raiseMid]
  | some x => simp only [raiseMid]; split <;> omega

theorem raiseAll_ge : ∀ (l : List (Option Int)) (g : Int), g ≤ raiseAll g l
  | [], _ => by simp [raiseAll]
  | m :: ms, g => by
    have h1 := raiseMid_ge g m
    have h2 := raiseAll_ge ms (raiseMid g m)
    simp only [raiseAll]; omega

theorem raiseAll_mem : ∀ (l : List (Option Int)) (g : Int) (x : Int), some x ∈ l → x ≤ raiseAll g l
  | [], _, _, h => by simp at h
  | m :: ms, g, x, h => by
    simp only [List.mem_cons] at h
    simp only [raiseAll]
    rcases h with rfl | h
    · have h2 := raiseAll_ge ms (raiseMid g (some x))
      have h1 : x ≤ raiseMid g (some x) := by simp only [raiseMid]; split <;> omega
      omega
    · exact raiseAll_mem ms _ x h

theorem raiseAll_eq : ∀ (l : List (Option Int)) (g : Int), (∀ x, some x ∈ l → x ≤ g) → raiseAll g l = g
  | [], _, _ => rfl
  | m :: ms, g, h => by
    have hm : raiseMid g m = g := by
      cases m with
      | none => rfl
      | some x =>
        have := h x (by simp)
        simp only [raiseMid]; split <;> omega
    simp only [raiseAll, hm]
    exact raiseAll_eq ms g (fun x hx => h x (by simp [hx]))

/-- the numbering loop keeps the list sorted, numbers everything, and returns a bound of all mids -/
theorem numberMids_spec : ∀ (ts : List Transceiver) (lo g : Int), Sorted lo ts → Bounded g ts → lo ≤ g →
    Sorted lo (numberMids ts g).1 ∧ Bounded (numberMids ts g).2 (numberMids ts g).1 ∧ g ≤ (numberMids ts g).2 ∧
    ∀ t ∈ (numberMids ts g).1, t.mid.isSome = true
  | [], _, g, _, _, _ => by
    refine ⟨trivial, ?_, by simp [numberMids], ?_⟩
    · intro t ht; simp [numberMids] at ht
    · intro t ht; simp [numberMids] at ht
  | t :: ts, lo, g, hs, hb, hle => by
    cases hm : t.mid with
    | some m =>
      rcases hs with ⟨m', hm', hlt, hrest⟩ | hn
      · rw [hm] at hm'; cases hm'
        have hmg : m ≤ g := hb t (by simp) m hm
        have ih := numberMids_spec ts m g hrest (fun u hu => hb u (by simp [hu])) hmg
        simp only [numberMids, hm]
        refine ⟨Or.inl ⟨m, hm, hlt, ih.1⟩, ?_, ih.2.2.1, ?_⟩
        · intro u hu x hx
          simp only [List.mem_cons] at hu
          rcases hu with rfl | hu
          · rw [hm] at hx; cases hx; have := ih.2.2.1; omega
          · exact ih.2.1 u hu x hx
        · intro u hu
          simp only [List.mem_cons] at hu
          rcases hu with rfl | hu
          · rw [hm]; rfl
          · exact ih.2.2.2 u hu
      · have := hn t (by simp); rw [hm] at this; cases this
    | none =>
      have hnone : ∀ u ∈ ts, u.mid = none := by
        rcases hs with ⟨m', hm', _, _⟩ | hn
        · rw [hm] at hm'; cases hm'
        · exact fun u hu => hn u (by simp [hu])
      have ih := numberMids_spec ts (g + 1) (g + 1) (sorted_of_all_none _ _ hnone)
        (fun u hu x hx => by rw [hnone u hu] at hx; cases hx) (by omega)
      simp only [numberMids, hm]
      refine ⟨Or.inl ⟨g + 1, rfl, by omega, ih.1⟩, ?_, by have := ih.2.2.1; omega, ?_⟩
      · intro u hu x hx
        simp only [List.mem_cons] at hu
        rcases hu with rfl | hu
        · simp only [Option.some.injEq] at hx; have := ih.2.2.1; omega
        · exact ih.2.1 u hu x hx
      · intro u hu
        simp only [List.mem_cons] at hu
        rcases hu with rfl | hu
        · rfl
        · exact ih.2.2.2 u hu

/-- numbering only touches unset mids -/
theorem numberMids_rel : ∀ (ts : List Transceiver) (g : Int),
    All₂ (fun t t' => t' = { t with mid := t'.mid }) ts (numberMids ts g).1
  | [], _ => trivial
  | t :: ts, g => by
    cases hm : t.mid with
    | some m => simp only [numberMids, hm]; exact ⟨by cases t; simp_all, numberMids_rel ts g⟩
    | none => simp only [numberMids, hm]; exact ⟨rfl, numberMids_rel ts (g + 1)⟩

theorem numberMids_id : ∀ (ts : List Transceiver) (g : Int), (∀ t ∈ ts, t.mid.isSome = true) →
    numberMids ts g = (ts, g)
  | [], _, _ => rfl
  | t :: ts, g, h => by
    cases hm : t.mid with
    | some m =>
      simp only [numberMids, hm, numberMids_id ts g (fun u hu => h u (by simp [hu]))]
    | none => have := h t (by simp); rw [hm] at this; cases this

/-! ### `Sorted` / `Bounded` only look at the mids -/

theorem sorted_congr : ∀ (lo : Int) (l l' : List Transceiver), l.map (·.mid) = l'.map (·.mid) →
    Sorted lo l → Sorted lo l'
  | _, [], [], _, _ => trivial
  | _, [], _ :: _, h, _ => by simp at h
  | _, _ :: _, [], h, _ => by simp at h
  | lo, t :: ts, t' :: ts', h, hm => by
    simp only [List.map_cons, List.cons.injEq] at h
    rcases hm with ⟨m, h1, h2, h3⟩ | hn
    · exact Or.inl ⟨m, h.1 ▸ h1, h2, sorted_congr m ts ts' h.2 h3⟩
    · refine Or.inr ?_
      have hall : ∀ m ∈ (t :: ts).map (·.mid), m = none := by
        intro m hm'
        obtain ⟨u, hu, rfl⟩ := List.mem_map.1 hm'
        exact hn u hu
      intro u hu
      apply hall
      rw [List.map_cons, h.1, h.2, ← List.map_cons]
      exact List.mem_map.2 ⟨u, hu, rfl⟩

theorem bounded_congr (g : Int) (l l' : List Transceiver) (h : l.map (·.mid) = l'.map (·.mid))
    (hb : Bounded g l) : Bounded g l' := by
  intro t' ht' m hm
  have : t'.mid ∈ l'.map (·.mid) := List.mem_map.2 ⟨t', ht', rfl⟩
  rw [← h] at this
  obtain ⟨t, ht, he⟩ := List.mem_map.1 this
  exact hb t ht m (by rw [he, hm])

theorem map_mid_set : ∀ (l : List Transceiver) (i : Nat) (t t' : Transceiver), l[i]? = some t → t'.mid = t.mid →
    (l.set i t').map (·.mid) = l.map (·.mid)
  | [], _, _, _, h, _ => by simp at h
  | x :: xs, 0, t, t', h, hm => by
    simp at h; subst h; simp [hm]
  | x :: xs, i + 1, t, t', h, hm => by
    simp at h; simp [map_mid_set xs i t t' h hm]

theorem sorted_append_none : ∀ (lo : Int) (l : List Transceiver) (t : Transceiver), t.mid = none →
    Sorted lo l → Sorted lo (l ++ [t])
  | _, [], t, h, _ => Or.inr (by simpa using h)
  | lo, x :: xs, t, h, hm => by
    rcases hm with ⟨m, h1, h2, h3⟩ | hn
    · exact Or.inl ⟨m, h1, h2, sorted_append_none m xs t h h3⟩
    · refine Or.inr ?_
      show ∀ u ∈ x :: (xs ++ [t]), u.mid = none
      intro u hu
      simp only [List.mem_cons, List.mem_append, List.mem_nil_iff, or_false] at hu
      rcases hu with rfl | hu | rfl
      · exact hn _ (by simp)
      · exact hn _ (by simp [hu])
      · exact h

/-! ### the application section's mid -/

/-- how many section ids are numbers `≥ c` -/
def countGe (c : Int) : List (Option Int) → Nat
  | [] => 0
  | some m :: r => (if c ≤ m then 1 else 0) + countGe c r
  | none :: r => countGe c r

theorem countGe_le_length : ∀ (c : Int) (l : List (Option Int)), countGe c l ≤ l.length
  | _, [] => by simp [countGe]
  | c, some m :: r => by have := countGe_le_length c r; simp only [countGe, List.length_cons]; split <;> omega
  | c, none :: r => by have := countGe_le_length c r; simp only [countGe, List.length_cons]; omega

theorem countGe_succ_le : ∀ (c : Int) (l : List (Option Int)), countGe (c + 1) l ≤ countGe c l
  | _, [] => by simp [countGe]
  | c, some m :: r => by
    have := countGe_succ_le c r
    simp only [countGe]; split <;> split <;> omega
  | c, none :: r => by simpa [countGe] using countGe_succ_le c r

theorem countGe_succ_lt : ∀ (c : Int) (l : List (Option Int)), some c ∈ l → countGe (c + 1) l < countGe c l
  | _, [], h => by simp at h
  | c, some m :: r, h => by
    simp only [List.mem_cons, Option.some.injEq] at h
    have hle := countGe_succ_le c r
    simp only [countGe]
    rcases h with rfl | h
    · split <;> split <;> omega
    · have := countGe_succ_lt c r h
      split <;> split <;> omega
  | c, none :: r, h => by
    simp only [List.mem_cons] at h
    rcases h with h | h
    · cases h
    · simpa [countGe] using countGe_succ_lt c r h

theorem dataMidFrom_spec : ∀ (f : Nat) (c : Int) (ids : List (Option Int)), countGe c ids < f →
    some (dataMidFrom f c ids) ∉ ids ∧ c ≤ dataMidFrom f c ids
  | 0, _, _, h => by omega
  | f + 1, c, ids, h => by
    simp only [dataMidFrom]
    split
    · rename_i hc
      have hmem : some c ∈ ids := by simpa using hc
      have := countGe_succ_lt c ids hmem
      have ih := dataMidFrom_spec f (c + 1) ids (by omega)
      exact ⟨ih.1, by omega⟩
    · rename_i hc
      exact ⟨by simpa using hc, by omega⟩

/-- `dataMediaSectionMid` returns a number that no section uses -/
theorem dataMid_fresh (ids : List (Option Int)) : some (dataMid ids) ∉ ids :=
  (dataMidFrom_spec _ _ ids (by have := countGe_le_length ids.length ids; omega)).1

/-! ### the invariant kept by every call -/

/-- an encoding as `addEncoding` makes it -/
def EncOk (e : Engine) (k : Kind) (en : Enc) : Prop :=
  en.ssrc ≠ 0 ∧ (en.rtx ≠ 0 ↔ e.rtx k = true) ∧ (en.fec ≠ 0 ↔ e.fec k = true)

def SenderOk (e : Engine) (k : Kind) (sd : Sender) : Prop :=
  sd.kind = k ∧ sd.encs ≠ [] ∧ ∀ en ∈ sd.encs, EncOk e k en

def TrOk (e : Engine) (t : Transceiver) : Prop := ∀ sd, t.sender = some sd → SenderOk e t.kind sd

structure Inv (s : St) : Prop where
  sorted : Sorted (-1) s.trs
  bounded : Bounded s.greaterMid s.trs
  low : -1 ≤ s.greaterMid
  senders : ∀ t ∈ s.trs, TrOk s.eng t
  fresh : 0 < s.nextSsrc

theorem mkEnc_ok (e : Engine) (k : Kind) (tr : Track) (n : Nat) (hn : 0 < n) :
    EncOk e k (mkEnc e k tr n).1 ∧ 0 < (mkEnc e k tr n).2 := by
  unfold mkEnc EncOk
  cases hr : e.rtx k <;> cases hf : e.fec k <;> simp <;> omega

theorem newSender_ok (e : Engine) (tr : Track) (n : Nat) (hn : 0 < n) :
    SenderOk e tr.kind (newSender e tr n).1 ∧ 0 < (newSender e tr n).2 := by
  have h := mkEnc_ok e tr.kind tr n hn
  refine ⟨⟨by simp [newSender], by simp [newSender], ?_⟩, by simpa [newSender] using h.2⟩
  intro en hen
  simp [newSender] at hen
  subst hen
  exact h.1

theorem findReusable_spec : ∀ (k : Kind) (l : List Transceiver) (i : Nat), findReusable k l = some i →
    ∃ t, l[i]? = some t ∧ t.kind = k ∧ t.sender = none
  | _, [], _, h => by simp [findReusable] at h
  | k, t :: ts, i, h => by
    unfold findReusable at h
    split at h
    · rename_i hc
      cases h
      exact ⟨t, rfl, hc.1, hc.2⟩
    · cases hr : findReusable k ts with
      | none => simp [hr] at h
      | some j =>
        simp [hr] at h
        subst h
        obtain ⟨u, hu, h1, h2⟩ := findReusable_spec k ts j hr
        exact ⟨u, by simpa using hu, h1, h2⟩

theorem inv_congr (s s' : St) (hi : Inv s) (ht : s'.trs = s.trs) (hg : s'.greaterMid = s.greaterMid)
    (he : s'.eng = s.eng) (hn : 0 < s'.nextSsrc) : Inv s' :=
  ⟨ht ▸ hi.sorted, by rw [hg, ht]; exact hi.bounded, by rw [hg]; exact hi.low,
   by rw [ht, he]; exact hi.senders, hn⟩

theorem inv_set (s s' : St) (i : Nat) (t t' : Transceiver) (hi : Inv s) (hget : s.trs[i]? = some t)
    (ht : s'.trs = s.trs.set i t') (hmid : t'.mid = t.mid) (hok : TrOk s.eng t')
    (hg : s'.greaterMid = s.greaterMid) (he : s'.eng = s.eng) (hn : 0 < s'.nextSsrc) : Inv s' := by
  have hm := map_mid_set s.trs i t t' hget hmid
  refine ⟨?_, ?_, by rw [hg]; exact hi.low, ?_, hn⟩
  · rw [ht]; exact sorted_congr (-1) _ _ hm.symm hi.sorted
  · rw [hg, ht]; exact bounded_congr _ _ _ hm.symm hi.bounded
  · rw [ht, he]
    intro u hu
    rcases List.mem_or_eq_of_mem_set hu with h | rfl
    · exact hi.senders u h
    · exact hok

theorem inv_append (s s' : St) (t : Transceiver) (hi : Inv s) (hmid : t.mid = none)
    (hok : TrOk s.eng t) (ht : s'.trs = s.trs ++ [t])
    (hg : s'.greaterMid = s.greaterMid) (he : s'.eng = s.eng) (hn : 0 < s'.nextSsrc) : Inv s' := by
  refine ⟨?_, ?_, by rw [hg]; exact hi.low, ?_, hn⟩
  · rw [ht]; exact sorted_append_none (-1) _ _ hmid hi.sorted
  · rw [hg, ht]
    intro u hu m hm
    simp only [List.mem_append, List.mem_cons, List.mem_nil_iff, or_false] at hu
    rcases hu with h | rfl
    · exact hi.bounded u h m hm
    · rw [hmid] at hm; cases hm
  · rw [ht, he]
    intro u hu
    simp only [List.mem_append, List.mem_cons, List.mem_nil_iff, or_false] at hu
    rcases hu with h | rfl
    · exact hi.senders u h
    · exact hok

theorem overrideSsrc_ok (e : Engine) (k : Kind) (sd : Sender) (ov : Nat) (h : SenderOk e k sd) :
    SenderOk e k (overrideSsrc sd ov) := by
  unfold overrideSsrc
  split
  · rename_i en hen
    split
    · rename_i hov
      refine ⟨h.1, by simp, ?_⟩
      intro x hx
      simp only [List.mem_cons, List.mem_nil_iff, or_false] at hx
      subst hx
      have := h.2.2 en (by rw [hen]; simp)
      exact ⟨hov, this.2.1, this.2.2⟩
    · exact h
  · exact h

theorem newTransceiverFromTrack_ok (e : Engine) (d : Dir) (tr : Track) (n ov : Nat) (t : Transceiver) (n' : Nat)
    (hn : 0 < n) (h : newTransceiverFromTrack e d tr n ov = .ok (t, n')) :
    t.mid = none ∧ TrOk e t ∧ 0 < n' ∧ t.kind = tr.kind ∧ t.dir = d := by
  have hs := newSender_ok e tr n hn
  unfold newTransceiverFromTrack at h
  cases d <;> simp at h
  all_goals
    obtain ⟨rfl, rfl⟩ := h
    refine ⟨rfl, ?_, hs.2, rfl, rfl⟩
    intro sd hsd
    simp at hsd
    subst hsd
    exact overrideSsrc_ok _ _ _ _ hs.1

/-! ### the `CreateOffer` loop -/

/-- the state after the mid-assignment steps of `CreateOffer` -/
def normal (s : St) : St := assignSt s

/-- the value `greaterMid` is raised to before numbering -/
def raised (s : St) : Int := raiseAll (raiseAll s.greaterMid s.pendingLocalMids) (s.trs.map (·.mid))

theorem normal_eq (s : St) : normal s =
    { s with trs := (numberMids s.trs (raised s)).1, greaterMid := (numberMids s.trs (raised s)).2 } := rfl

theorem raised_ge (s : St) : s.greaterMid ≤ raised s := by
  have h1 := raiseAll_ge s.pendingLocalMids s.greaterMid
  have h2 := raiseAll_ge (s.trs.map (·.mid)) (raiseAll s.greaterMid s.pendingLocalMids)
  unfold raised; omega

theorem normal_spec (s : St) (hi : Inv s) :
    Sorted (-1) (normal s).trs ∧ Bounded (normal s).greaterMid (normal s).trs ∧
    raised s ≤ (normal s).greaterMid ∧ ∀ t ∈ (normal s).trs, t.mid.isSome = true := by
  have hg := raised_ge s
  have hb : Bounded (raised s) s.trs := fun t ht m hm => by have := hi.bounded t ht m hm; omega
  exact numberMids_spec s.trs (-1) (raised s) hi.sorted hb (by have := hi.low; omega)

theorem normal_rel (s : St) : All₂ (fun t t' => t' = { t with mid := t'.mid }) s.trs (normal s).trs :=
  numberMids_rel s.trs (raised s)

theorem normal_inj (s : St) (hi : Inv s) : ∀ t ∈ (normal s).trs, ∀ u ∈ (normal s).trs, t.mid = u.mid → t = u := by
  obtain ⟨hs, _, _, hsome⟩ := normal_spec s hi
  intro t ht u hu he
  exact sorted_inj (-1) _ hs t ht u hu he (hsome t ht)

theorem trOk_of_mid_update (e : Engine) (t t' : Transceiver) (h : t' = { t with mid := t'.mid }) (ht : TrOk e t) :
    TrOk e t' := by
  intro sd hsd
  rw [h] at hsd ⊢
  exact ht sd hsd

theorem inv_normal (s : St) (hi : Inv s) : Inv (normal s) := by
  obtain ⟨h1, h2, h3, _⟩ := normal_spec s hi
  refine ⟨h1, h2, by have := raised_ge s; have := hi.low; omega, ?_, hi.fresh⟩
  intro t' ht'
  obtain ⟨t, ht, hr⟩ := (normal_rel s).exists_left t' ht'
  exact trOk_of_mid_update _ t t' hr (hi.senders t ht)

theorem normal_normal (s : St) (hi : Inv s) : normal (normal s) = normal s := by
  obtain ⟨_, hb, hge, hsome⟩ := normal_spec s hi
  have hpend : raiseAll (normal s).greaterMid (normal s).pendingLocalMids = (normal s).greaterMid := by
    apply raiseAll_eq
    intro x hx
    have h1 : x ≤ raiseAll s.greaterMid s.pendingLocalMids := raiseAll_mem _ _ x hx
    have h2 := raiseAll_ge (s.trs.map (·.mid)) (raiseAll s.greaterMid s.pendingLocalMids)
    unfold raised at hge; omega
  have hr : raised (normal s) = (normal s).greaterMid := by
    unfold raised
    rw [hpend]
    apply raiseAll_eq
    intro x hx
    obtain ⟨t, ht, hm⟩ := List.mem_map.1 hx
    exact hb t ht x hm
  rw [normal_eq (normal s), hr, numberMids_id _ _ hsome]

theorem offerLoop_zero (s : St) : offerLoop 0 s =
    match generate (normal s) with
    | .error e => (normal s, .error e)
    | .ok o =>
      if !changed (normal s).trs o then ({ normal s with haveOffer := true, lastOfferMids := offerMids o }, .ok o)
      else (normal s, .error .retries) := by
  rw [offerLoop]; rfl

theorem offerLoop_succ (f : Nat) (s : St) : offerLoop (f + 1) s =
    match generate (normal s) with
    | .error e => (normal s, .error e)
    | .ok o =>
      if !changed (normal s).trs o then ({ normal s with haveOffer := true, lastOfferMids := offerMids o }, .ok o)
      else offerLoop f (normal s) := by
  rw [offerLoop]; rfl

/-- What a run of the loop returns: on success the numbered state with `lastOffer` set, a description
    generated from exactly that state, which `hasLocalDescriptionChanged` accepted. -/
theorem offerLoop_spec : ∀ (fuel : Nat) (s : St), Inv s →
    match offerLoop fuel s with
    | (s', .ok o) => s' = { normal s with haveOffer := true, lastOfferMids := offerMids o } ∧
                      generate (normal s) = .ok o ∧ changed (normal s).trs o = false
    | (s', .error _) => s' = normal s
  | 0, s, hi => by
    rw [offerLoop_zero s]
    cases hg : generate (normal s) with
    | error e => simp
    | ok o =>
      cases hc : changed (normal s).trs o <;> simp [hc]
  | f + 1, s, hi => by
    rw [offerLoop_succ f s]
    cases hg : generate (normal s) with
    | error e => simp
    | ok o =>
      cases hc : changed (normal s).trs o with
      | false => simp [hc]
      | true =>
        simp only [hc, Bool.not_true, Bool.false_eq_true, if_false]
        have ih := offerLoop_spec f (normal s) (inv_normal s hi)
        rw [normal_normal s hi, hg] at ih
        exact ih

theorem createOffer_ok (s s' : St) (o : Offer) (hi : Inv s) (h : createOffer s = (s', .ok o)) :
    s' = { normal s with haveOffer := true, lastOfferMids := offerMids o } ∧ generate (normal s) = .ok o ∧
    changed (normal s).trs o = false := by
  have := offerLoop_spec 127 s hi
  unfold createOffer at h
  rw [h] at this
  exact this

theorem createOffer_err (s s' : St) (e : Err) (hi : Inv s) (h : createOffer s = (s', .error e)) :
    s' = normal s := by
  have := offerLoop_spec 127 s hi
  unfold createOffer at h
  rw [h] at this
  exact this

theorem inv_createOffer (s : St) (hi : Inv s) : Inv (createOffer s).1 := by
  cases h : createOffer s with
  | mk s' r =>
    cases r with
    | ok o =>
      rw [(createOffer_ok s s' o hi h).1]
      exact inv_congr (normal s) _ (inv_normal s hi) rfl rfl rfl hi.fresh
    | error e => rw [createOffer_err s s' e hi h]; exact inv_normal s hi

/-! ### every call keeps the invariant, the engine and the configuration -/

theorem mem_of_getElem? {α : Type} {l : List α} {i : Nat} {a : α} (h : l[i]? = some a) : a ∈ l :=
  List.mem_of_getElem? h

theorem inv_addTrack (s : St) (tr : Track) (hi : Inv s) : Inv (addTrack s tr).1 := by
  unfold addTrack
  cases hf : findReusable tr.kind s.trs with
  | some i =>
    obtain ⟨t, hget, hk, _⟩ := findReusable_spec _ _ _ hf
    have hs := newSender_ok s.eng tr s.nextSsrc hi.fresh
    simp only [hget]
    refine inv_set s _ i t _ hi hget rfl rfl ?_ rfl rfl hs.2
    intro sd hsd
    simp only [Option.some.injEq] at hsd
    subst hsd
    rw [show ({ t with sender := some (newSender s.eng tr s.nextSsrc).1, dir := dirAfterAttach t.dir } : Transceiver).kind
      = tr.kind from hk]
    exact hs.1
  | none =>
    simp only
    cases hn : newTransceiverFromTrack s.eng .sendrecv tr s.nextSsrc 0 with
    | error e => exact hi
    | ok p =>
      obtain ⟨t, n⟩ := p
      obtain ⟨h1, h2, h3, _, _⟩ := newTransceiverFromTrack_ok _ _ _ _ _ _ _ hi.fresh hn
      exact inv_append s _ t hi h1 h2 rfl rfl rfl h3

theorem inv_addKind (s : St) (k : Kind) (d : Option Dir) (ov : Nat) (hi : Inv s) :
    Inv (addTransceiverFromKind s k d ov).1 := by
  unfold addTransceiverFromKind
  generalize d.getD .sendrecv = dd
  cases dd
  case recvonly => exact inv_append s _ _ hi rfl (by intro sd h; simp at h) rfl rfl rfl hi.fresh
  case inactive => exact hi
  all_goals
    dsimp only
    split
    · split
      · rename_i t n hn
        obtain ⟨h1, h2, h3, _, _⟩ := newTransceiverFromTrack_ok _ _ _ _ _ _ _ hi.fresh hn
        exact inv_append s _ t hi h1 h2 rfl rfl rfl h3
      · exact inv_congr s _ hi rfl rfl rfl hi.fresh
    · exact hi

theorem inv_addFromTrack (s : St) (tr : Track) (d : Option Dir) (ov : Nat) (hi : Inv s) :
    Inv (addTransceiverFromTrack s tr d ov).1 := by
  unfold addTransceiverFromTrack
  cases hn : newTransceiverFromTrack s.eng (d.getD .sendrecv) tr s.nextSsrc (initSsrc d ov) with
  | error e => exact hi
  | ok p =>
    obtain ⟨t, n⟩ := p
    obtain ⟨h1, h2, h3, _, _⟩ := newTransceiverFromTrack_ok _ _ _ _ _ _ _ hi.fresh hn
    exact inv_append s _ t hi h1 h2 rfl rfl rfl h3

theorem sender_addEncoding_ok (e : Engine) (k : Kind) (sd sd' : Sender) (tr : Track) (n n' : Nat)
    (hs : SenderOk e k sd) (hn : 0 < n) (h : sd.addEncoding e tr n = .ok (sd', n')) :
    SenderOk e k sd' ∧ 0 < n' := by
  unfold Sender.addEncoding at h
  split at h; · cases h
  split at h; · cases h
  split at h; · cases h
  split at h; · cases h
  split at h; · cases h
  split at h; · cases h
  have hm := mkEnc_ok e sd.kind tr n hn
  simp only [Except.ok.injEq, Prod.mk.injEq] at h
  obtain ⟨rfl, rfl⟩ := h
  refine ⟨⟨hs.1, by simp, ?_⟩, hm.2⟩
  intro en hen
  simp only [List.mem_append, List.mem_cons, List.mem_nil_iff, or_false] at hen
  rcases hen with h | rfl
  · exact hs.2.2 en h
  · rw [← hs.1]; exact hm.1

theorem inv_addEncoding (s : St) (i : Nat) (tr : Track) (hi : Inv s) : Inv (addEncoding s i tr).1 := by
  unfold addEncoding
  cases hget : s.trs[i]? with
  | none => exact hi
  | some t =>
    simp only
    cases hsd : t.sender with
    | none => exact hi
    | some sd =>
      simp only
      cases ha : sd.addEncoding s.eng tr s.nextSsrc with
      | error e => exact hi
      | ok p =>
        obtain ⟨sd', n⟩ := p
        have hok := sender_addEncoding_ok s.eng t.kind sd sd' tr _ n
          (hi.senders t (mem_of_getElem? hget) sd hsd) hi.fresh ha
        dsimp only
        refine inv_set s _ i t _ hi hget rfl rfl ?_ rfl rfl hok.2
        intro x hx
        simp only [Option.some.injEq] at hx
        subst hx
        exact hok.1

theorem trOk_no_sender (e : Engine) (t : Transceiver) (h : t.sender = none) : TrOk e t := by
  intro sd hsd; rw [h] at hsd; cases hsd

theorem inv_removeTrack (s : St) (i : Nat) (hi : Inv s) : Inv (removeTrack s i).1 := by
  unfold removeTrack
  cases hget : s.trs[i]? with
  | none => exact hi
  | some t =>
    simp only
    cases hsd : t.sender with
    | none => exact hi
    | some sd =>
      simp only
      cases t.dir <;> dsimp only <;>
        exact inv_set s _ i t _ hi hget rfl rfl (trOk_no_sender _ _ rfl) rfl rfl hi.fresh

theorem sender_replaceTrack_ok (e : Engine) (k : Kind) (sd sd' : Sender) (tr : Option Track)
    (hs : SenderOk e k sd) (h : sd.replaceTrack tr = .ok sd') : SenderOk e k sd' := by
  have key : ∀ f : Enc → Enc, (∀ en, (f en).ssrc = en.ssrc ∧ (f en).rtx = en.rtx ∧ (f en).fec = en.fec) →
      SenderOk e k { sd with encs := sd.encs.map f } := by
    intro f hf
    refine ⟨hs.1, by simpa using hs.2.1, ?_⟩
    intro en hen
    obtain ⟨x, hx, rfl⟩ := List.mem_map.1 hen
    have := hs.2.2 x hx
    unfold EncOk at this ⊢
    rw [(hf x).1, (hf x).2.1, (hf x).2.2]
    exact this
  unfold Sender.replaceTrack at h
  cases tr with
  | none =>
    simp only [Except.ok.injEq] at h
    subst h
    exact key _ (fun _ => ⟨rfl, rfl, rfl⟩)
  | some t =>
    simp only at h
    split at h; · cases h
    split at h; · cases h
    simp only [Except.ok.injEq] at h
    subst h
    exact key _ (fun _ => ⟨rfl, rfl, rfl⟩)

theorem inv_replaceTrack (s : St) (i : Nat) (tr : Option Track) (hi : Inv s) : Inv (replaceTrack s i tr).1 := by
  unfold replaceTrack
  cases hget : s.trs[i]? with
  | none => exact hi
  | some t =>
    simp only
    cases hsd : t.sender with
    | none => exact hi
    | some sd =>
      simp only
      cases ha : sd.replaceTrack tr with
      | error e => exact hi
      | ok sd' =>
        have hok := sender_replaceTrack_ok s.eng t.kind sd sd' tr
          (hi.senders t (mem_of_getElem? hget) sd hsd) ha
        dsimp only
        refine inv_set s _ i t _ hi hget rfl rfl ?_ rfl rfl hi.fresh
        intro x hx
        simp only [Option.some.injEq] at hx
        subst hx
        exact hok

theorem inv_stop (s : St) (i : Nat) (hi : Inv s) : Inv (stopTransceiver s i).1 := by
  unfold stopTransceiver
  cases hget : s.trs[i]? with
  | none => exact hi
  | some t =>
    dsimp only
    refine inv_set s _ i t _ hi hget rfl rfl ?_ rfl rfl hi.fresh
    intro x hx
    cases hsd : t.sender with
    | none => simp [hsd] at hx
    | some sd =>
      simp [hsd] at hx
      subst hx
      have := hi.senders t (mem_of_getElem? hget) sd hsd
      exact ⟨this.1, this.2.1, this.2.2⟩

theorem inv_step (s : St) (op : Op) (hi : Inv s) : Inv (step s op).1 := by
  cases op with
  | addTrack tr => exact inv_addTrack s tr hi
  | addKind k d ov => exact inv_addKind s k d ov hi
  | addFromTrack tr d ov => exact inv_addFromTrack s tr d ov hi
  | addEncoding i tr => exact inv_addEncoding s i tr hi
  | removeTrack i => exact inv_removeTrack s i hi
  | replaceTrack i tr => exact inv_replaceTrack s i tr hi
  | stop i => exact inv_stop s i hi
  | dataChannel b =>
    simp only [step, createDataChannel]
    split
    · exact hi
    · exact inv_congr s _ hi rfl rfl rfl hi.fresh
  | offer =>
    have := inv_createOffer s hi
    simp only [step]
    split <;> rename_i h <;> rw [h] at this <;> exact this
  | setLocal =>
    simp only [step]
    split
    · exact hi
    · split
      · exact hi
      · exact inv_congr s _ hi rfl rfl rfl hi.fresh

theorem inv_init (e : Engine) (a : Bool) : Inv (init e a) :=
  ⟨trivial, by intro t ht; simp [init] at ht, by simp [init], by intro t ht; simp [init] at ht, by simp [init]⟩

theorem inv_runOps : ∀ (ops : List Op) (s : St), Inv s → Inv (runOps s ops).1
  | [], _, hi => hi
  | op :: ops, s, hi => inv_runOps ops _ (inv_step s op hi)

/-! ### what `generate` writes -/

theorem sectionsOf_all₂ (e : Engine) : ∀ (ts : List Transceiver) (secs : List Section),
    sectionsOf e ts = .ok secs → All₂ (fun t sec => transceiverSection e t = .ok sec) ts secs
  | [], secs, h => by
    simp [sectionsOf] at h; subst h; trivial
  | t :: ts, secs, h => by
    unfold sectionsOf at h
    cases ht : transceiverSection e t with
    | error err => simp [ht] at h
    | ok sec =>
      cases hr : sectionsOf e ts with
      | error err => simp [ht, hr] at h
      | ok rest =>
        simp [ht, hr] at h
        subst h
        exact ⟨ht, sectionsOf_all₂ e ts rest hr⟩

/-- a section that is not the bare rejected line carries the transceiver's mid, kind and direction, and
    exists only when the engine has a codec for the kind -/
theorem section_basic (e : Engine) (t : Transceiver) (sec : Section) (h : transceiverSection e t = .ok sec)
    (hr : sec.rejected = false) :
    sec.mid = t.mid ∧ sec.kind = t.kind ∧ sec.dirs = [t.dir] ∧ e.hasCodecs t.kind = true := by
  unfold transceiverSection at h
  split at h
  · rename_i hc
    split at h
    · cases h; exact ⟨rfl, rfl, rfl, hc⟩
    · split at h
      · cases h; exact ⟨rfl, rfl, rfl, hc⟩
      · cases h; exact ⟨rfl, rfl, rfl, hc⟩
  · split at h
    · cases h
    · cases h; simp at hr

/-- every section, rejected or not, carries the transceiver's mid; a rejected one has no direction -/
theorem section_mid (e : Engine) (t : Transceiver) (sec : Section) (h : transceiverSection e t = .ok sec) :
    sec.mid = t.mid ∧ (sec.rejected = true → sec.dirs = []) := by
  unfold transceiverSection at h
  split at h
  · split at h
    · cases h; exact ⟨rfl, by simp⟩
    · split at h
      · cases h; exact ⟨rfl, by simp⟩
      · cases h; exact ⟨rfl, by simp⟩
  · split at h
    · cases h
    · cases h; exact ⟨rfl, fun _ => rfl⟩

theorem generate_ok (s : St) (o : Offer) (h : generate s = .ok o) :
    sectionsOf s.eng s.trs = .ok o.media ∧
    o.app = (if s.always || s.dcRequested != 0 then some (dataMid (s.trs.map (·.mid))) else none) := by
  unfold generate at h
  split at h
  · cases h
  · rename_i media hs
    cases h
    exact ⟨hs, rfl⟩

theorem lookupDir_some (o : Offer) (mid : Option Int) (d : Option Dir) (h : lookupDir o mid = some d) :
    (∃ sec ∈ o.media, sec.mid = mid ∧ d = sec.dirs.head?) ∨
    (o.app.isSome = true ∧ o.app = mid ∧ d = some .sendrecv) := by
  unfold lookupDir at h
  cases hf : o.media.find? (fun sec => sec.mid == mid) with
  | some sec =>
    simp only [hf, Option.some.injEq] at h
    have hp := List.find?_some hf
    simp only [beq_iff_eq] at hp
    exact Or.inl ⟨sec, List.mem_of_find?_eq_some hf, hp, h.symm⟩
  | none =>
    simp only [hf] at h
    split at h
    · rename_i hc
      simp only [Bool.and_eq_true, beq_iff_eq] at hc
      simp only [Option.some.injEq] at h
      exact Or.inr ⟨hc.1, hc.2, h.symm⟩
    · cases h

/-- the application section's mid is not the mid of any transceiver -/
theorem app_fresh (s : St) (o : Offer) (hg : generate s = .ok o) :
    ∀ t ∈ s.trs, t.mid.isSome = true → o.app ≠ t.mid := by
  intro t ht hsome heq
  obtain ⟨_, happ⟩ := generate_ok _ _ hg
  rw [happ] at heq
  split at heq
  · exact dataMid_fresh (s.trs.map (·.mid)) (by rw [heq]; exact List.mem_map.2 ⟨t, ht, rfl⟩)
  · rw [← heq] at hsome; cases hsome

theorem changed_false (ts : List Transceiver) (o : Offer) (h : changed ts o = false) :
    ∀ t ∈ ts, lookupDir o t.mid = some (some t.dir) := by
  intro t ht
  unfold changed at h
  have := (List.any_eq_false.1 h) t ht
  cases hl : lookupDir o t.mid with
  | none => simp [hl] at this
  | some d => simpa [hl] using this

/-- `hasLocalDescriptionChanged` accepted the description, hence no section is a rejected one (a rejected
    section has the transceiver's mid but no direction attribute) -/
theorem no_rejected (s : St) (hi : Inv s) (o : Offer) (hg : generate (normal s) = .ok o)
    (hc : changed (normal s).trs o = false) :
    ∀ t ∈ (normal s).trs, ∀ sec, transceiverSection s.eng t = .ok sec → sec.rejected = false := by
  intro t ht sec hsec
  obtain ⟨hsecs, _⟩ := generate_ok _ _ hg
  have hall := sectionsOf_all₂ _ _ _ hsecs
  have hl := changed_false _ _ hc t ht
  have hsome := (normal_spec s hi).2.2.2 t ht
  rcases lookupDir_some _ _ _ hl with ⟨sec', hmem, hmid, hd⟩ | ⟨_, happmid, _⟩
  · obtain ⟨t', ht', hsec'⟩ := hall.exists_left sec' hmem
    have hm' := section_mid _ _ _ hsec'
    have : t' = t := normal_inj s hi t' ht' t ht (by rw [← hm'.1, hmid])
    subst this
    have hn : (normal s).eng = s.eng := rfl
    rw [hn, hsec] at hsec'
    cases hsec'
    cases hr : sec.rejected with
    | false => rfl
    | true => rw [hm'.2 hr] at hd; cases hd
  · exact absurd happmid (app_fresh _ _ hg t ht hsome)

/-- content of a non-rejected section as far as the sender is concerned -/
theorem section_sender (e : Engine) (t : Transceiver) (sec : Section) (h : transceiverSection e t = .ok sec)
    (hr : sec.rejected = false) :
    match t.sender.bind Sender.track, t.sender with
    | some tr, some sd =>
      sec.msids = sd.params.map (fun _ => (tr.stream, tr.id)) ∧
      sec.sources = sd.params.flatMap (encSources tr) ∧
      sec.groups = sd.params.flatMap encGroups ∧
      sec.rids = (if sd.params.length > 1 then sd.params.map (·.rid) else []) ∧
      sec.simulcast = (if sd.params.length > 1 then some (sd.params.map (·.rid)) else none)
    | _, _ => sec.msids = [] ∧ sec.sources = [] ∧ sec.groups = [] ∧ sec.rids = [] ∧ sec.simulcast = none := by
  unfold transceiverSection at h
  split at h
  · cases hs : t.sender with
    | none => simp [hs] at h ⊢; subst h; simp
    | some sd =>
      cases htr : sd.track with
      | none => simp [hs, htr] at h ⊢; subst h; simp
      | some tr => simp [hs, htr] at h ⊢; subst h; simp
  · split at h
    · cases h
    · cases h; simp at hr

/-! ### when `CreateOffer` succeeds -/

theorem transceiverSection_ok (e : Engine) (t : Transceiver) (h : e.hasCodecs t.kind = true) :
    ∃ sec, transceiverSection e t = .ok sec ∧ sec.rejected = false := by
  unfold transceiverSection
  simp only [h, if_true]
  split
  · exact ⟨_, rfl, rfl⟩
  · split
    · exact ⟨_, rfl, rfl⟩
    · exact ⟨_, rfl, rfl⟩

theorem sectionsOf_ok (e : Engine) : ∀ (ts : List Transceiver), (∀ t ∈ ts, e.hasCodecs t.kind = true) →
    ∃ secs, sectionsOf e ts = .ok secs
  | [], _ => ⟨[], rfl⟩
  | t :: ts, h => by
    obtain ⟨sec, hsec, _⟩ := transceiverSection_ok e t (h t (by simp))
    obtain ⟨secs, hsecs⟩ := sectionsOf_ok e ts (fun u hu => h u (by simp [hu]))
    exact ⟨sec :: secs, by simp [sectionsOf, hsec, hsecs]⟩

theorem normal_kind {P : Kind → Prop} (s : St) (h : ∀ t ∈ s.trs, P t.kind) : ∀ t ∈ (normal s).trs, P t.kind := by
  intro t' ht'
  obtain ⟨t, ht, hr⟩ := (normal_rel s).exists_left t' ht'
  rw [hr]
  exact h t ht

/-- with a codec for every transceiver's kind the description is generated and accepted at the first attempt -/
theorem offer_accepted (s : St) (hi : Inv s) (h : ∀ t ∈ s.trs, s.eng.hasCodecs t.kind = true) :
    ∃ o, generate (normal s) = .ok o ∧ changed (normal s).trs o = false := by
  have hk : ∀ t ∈ (normal s).trs, (normal s).eng.hasCodecs t.kind = true :=
    normal_kind (P := fun k => s.eng.hasCodecs k = true) s h
  obtain ⟨secs, hsecs⟩ := sectionsOf_ok (normal s).eng (normal s).trs hk
  have hgen : ∃ o, generate (normal s) = .ok o ∧ o.media = secs := by
    simp only [generate, hsecs]
    exact ⟨_, rfl, rfl⟩
  obtain ⟨o, hgo, hmedia⟩ := hgen
  subst hmedia
  have hall := sectionsOf_all₂ _ _ _ hsecs
  refine ⟨o, hgo, ?_⟩
  unfold changed
  apply List.any_eq_false.2
  intro t ht
  obtain ⟨sec, hmem, hsec⟩ := hall.exists_right t ht
  obtain ⟨sec0, hsec0, hrej0⟩ := transceiverSection_ok _ t (hk t ht)
  rw [hsec] at hsec0; cases hsec0
  have hb := section_basic _ _ _ hsec hrej0
  have hfound : (o.media.find? (fun x => x.mid == t.mid)).isSome = true := by
    rw [List.find?_isSome]
    exact ⟨sec, hmem, by simp [hb.1]⟩
  cases hf : o.media.find? (fun x => x.mid == t.mid) with
  | none => rw [hf] at hfound; cases hfound
  | some sec' =>
    have hp := List.find?_some hf
    simp only [beq_iff_eq] at hp
    obtain ⟨t', ht', hsec'⟩ := hall.exists_left sec' (List.mem_of_find?_eq_some hf)
    have hm' := section_mid _ _ _ hsec'
    have : t' = t := normal_inj s hi t' ht' t ht (by rw [← hm'.1, hp])
    subst this
    rw [hsec] at hsec'; cases hsec'
    simp [lookupDir, hf, hb.2.2.1]

/-- a connection whose transceivers (all with a mid), engine and data-channel settings are those of a state
    whose description was accepted produces that same description -/
theorem offer_again (n a : St) (o : Offer) (hg : generate n = .ok o) (hc : changed n.trs o = false)
    (hsome : ∀ t ∈ n.trs, t.mid.isSome = true) (h1 : a.eng = n.eng) (h2 : a.trs = n.trs)
    (h3 : a.always = n.always) (h4 : a.dcRequested = n.dcRequested) : (createOffer a).2 = .ok o := by
  have htrs : (normal a).trs = n.trs := by
    rw [normal_eq]
    show (numberMids a.trs _).1 = _
    rw [h2, numberMids_id _ _ hsome]
  have hgen : generate (normal a) = .ok o := by
    rw [← hg]
    have e1 : (normal a).eng = n.eng := h1
    have e3 : (normal a).always = n.always := h3
    have e4 : (normal a).dcRequested = n.dcRequested := h4
    simp only [generate, e1, htrs, e3, e4]
  unfold createOffer
  rw [offerLoop_succ 126 a, hgen]
  simp only [htrs, hc, Bool.not_false, if_true]

/-! ### frame: the engine, the configuration flag and the data-channel counter -/

theorem offerLoop_frame : ∀ (fuel : Nat) (s : St),
    (offerLoop fuel s).1.eng = s.eng ∧ (offerLoop fuel s).1.always = s.always ∧
    (offerLoop fuel s).1.dcRequested = s.dcRequested
  | 0, s => by
    rw [offerLoop]
    split
    · exact ⟨rfl, rfl, rfl⟩
    · split <;> exact ⟨rfl, rfl, rfl⟩
  | f + 1, s => by
    rw [offerLoop]
    split
    · exact ⟨rfl, rfl, rfl⟩
    · split
      · exact ⟨rfl, rfl, rfl⟩
      · exact offerLoop_frame f (assignSt s)

/-- the call is a `CreateDataChannel` that returned a channel -/
def dcCreated : Op → Res → Bool
  | .dataChannel _, .ok => true
  | _, _ => false

theorem step_frame (s : St) (op : Op) :
    (step s op).1.eng = s.eng ∧ (step s op).1.always = s.always ∧
    (step s op).1.dcRequested = s.dcRequested + (if dcCreated op (step s op).2 then 1 else 0) := by
  cases op with
  | addTrack tr =>
    simp only [step, addTrack]
    repeat' split
    all_goals simp_all [dcCreated]
  | addKind k d ov =>
    simp only [step, addTransceiverFromKind]
    repeat' split
    all_goals simp_all [dcCreated]
  | addFromTrack tr d ov =>
    simp only [step, addTransceiverFromTrack]
    repeat' split
    all_goals simp_all [dcCreated]
  | addEncoding i tr =>
    simp only [step, addEncoding]
    repeat' split
    all_goals simp_all [dcCreated]
  | removeTrack i =>
    simp only [step, removeTrack]
    repeat' split
    all_goals simp_all [dcCreated]
  | replaceTrack i tr =>
    simp only [step, replaceTrack]
    repeat' split
    all_goals simp_all [dcCreated]
  | stop i =>
    simp only [step, stopTransceiver]
    repeat' split
    all_goals simp_all [dcCreated]
  | dataChannel b =>
    simp only [step, createDataChannel]
    split <;> simp [dcCreated]
  | offer =>
    have h := offerLoop_frame 127 s
    simp only [step, createOffer]
    split <;> rename_i h' <;> rw [h'] at h <;> simpa [dcCreated] using h
  | setLocal =>
    simp only [step]
    repeat' split
    all_goals simp_all [dcCreated]

/-- number of data channels the history created -/
def dcCount : List Op → List Res → Nat
  | op :: ops, r :: rs => (if dcCreated op r then 1 else 0) + dcCount ops rs
  | _, _ => 0

theorem runOps_frame : ∀ (ops : List Op) (s : St),
    (runOps s ops).1.eng = s.eng ∧ (runOps s ops).1.always = s.always ∧
    (runOps s ops).1.dcRequested = s.dcRequested + dcCount ops (runOps s ops).2
  | [], s => by simp [runOps, dcCount]
  | op :: ops, s => by
    have h1 := step_frame s op
    have h2 := runOps_frame ops (step s op).1
    simp only [runOps, dcCount]
    refine ⟨by rw [h2.1, h1.1], by rw [h2.2.1, h1.2.1], ?_⟩
    rw [h2.2.2, h1.2.2]
    omega

/-! ### SSRCs stay with their sender -/

/-- the SSRC triples (primary, RTX, FEC) of a sender's encodings, in order -/
def Sender.ssrcs (sd : Sender) : List (Nat × Nat × Nat) := sd.encs.map fun e => (e.ssrc, e.rtx, e.fec)

/-- `Keeps ts ts'`: wherever both lists have a transceiver with a sender at the same position, the old
    sender's SSRC triples are a prefix of the new one's -/
def Keeps (ts ts' : List Transceiver) : Prop :=
  ∀ (i : Nat) (t t' : Transceiver) (sd sd' : Sender), ts[i]? = some t → ts'[i]? = some t' →
    t.sender = some sd → t'.sender = some sd' → sd.ssrcs <+: sd'.ssrcs

theorem keeps_refl (ts : List Transceiver) : Keeps ts ts := by
  intro i t t' sd sd' h h' hs hs'
  rw [h] at h'; cases h'
  rw [hs] at hs'; cases hs'
  exact List.prefix_refl _

theorem keeps_set (ts : List Transceiver) (j : Nat) (tj x : Transceiver) (hj : ts[j]? = some tj)
    (hx : ∀ sd sd', tj.sender = some sd → x.sender = some sd' → sd.ssrcs <+: sd'.ssrcs) :
    Keeps ts (ts.set j x) := by
  intro i t t' sd sd' h h' hs hs'
  rw [List.getElem?_set] at h'
  split at h'
  · rename_i hij
    subst hij
    split at h'
    · cases h'
      rw [hj] at h; cases h
      exact hx sd sd' hs hs'
    · cases h'
  · rw [h] at h'; cases h'
    rw [hs] at hs'; cases hs'
    exact List.prefix_refl _

theorem keeps_append (ts : List Transceiver) (x : Transceiver) : Keeps ts (ts ++ [x]) := by
  intro i t t' sd sd' h h' hs hs'
  have hi : i < ts.length := by
    rcases Nat.lt_or_ge i ts.length with h1 | h1
    · exact h1
    · rw [List.getElem?_eq_none h1] at h; cases h
  rw [List.getElem?_append_left hi, h] at h'
  cases h'
  rw [hs] at hs'; cases hs'
  exact List.prefix_refl _

theorem keeps_normal (s : St) : Keeps s.trs (normal s).trs := by
  intro i t t' sd sd' h h' hs hs'
  have hr := (normal_rel s).getElem? i t t' h h'
  rw [hr] at hs'
  simp only at hs'
  rw [hs] at hs'; cases hs'
  exact List.prefix_refl _

theorem keeps_createOffer (s : St) (hi : Inv s) : Keeps s.trs (createOffer s).1.trs := by
  cases h : createOffer s with
  | mk s' r =>
    cases r with
    | ok o => rw [(createOffer_ok s s' o hi h).1]; exact keeps_normal s
    | error e => rw [createOffer_err s s' e hi h]; exact keeps_normal s

theorem replaceTrack_ssrcs (sd sd' : Sender) (tr : Option Track) (h : sd.replaceTrack tr = .ok sd') :
    sd'.ssrcs = sd.ssrcs := by
  unfold Sender.replaceTrack at h
  cases tr with
  | none => simp only [Except.ok.injEq] at h; subst h; simp [Sender.ssrcs, List.map_map, Function.comp_def]
  | some t =>
    simp only at h
    split at h; · cases h
    split at h; · cases h
    simp only [Except.ok.injEq] at h; subst h; simp [Sender.ssrcs, List.map_map, Function.comp_def]

theorem addEncoding_ssrcs (e : Engine) (sd sd' : Sender) (tr : Track) (n n' : Nat)
    (h : sd.addEncoding e tr n = .ok (sd', n')) : sd.ssrcs <+: sd'.ssrcs := by
  unfold Sender.addEncoding at h
  split at h; · cases h
  split at h; · cases h
  split at h; · cases h
  split at h; · cases h
  split at h; · cases h
  split at h; · cases h
  simp only [Except.ok.injEq, Prod.mk.injEq] at h
  obtain ⟨rfl, rfl⟩ := h
  simp [Sender.ssrcs]

/-- Every call keeps the SSRCs of every sender that stays attached: the SSRCs an offer announced are the
    ones the sender has (and reports through `GetParameters`) for as long as it exists; `AddEncoding` only
    appends. -/
theorem step_keeps (s : St) (op : Op) (hi : Inv s) : Keeps s.trs (step s op).1.trs := by
  cases op with
  | addTrack tr =>
    simp only [step, addTrack]
    cases hf : findReusable tr.kind s.trs with
    | some i =>
      obtain ⟨t, hget, _, hnone⟩ := findReusable_spec _ _ _ hf
      simp only [hget]
      exact keeps_set _ _ t _ hget (fun sd sd' h _ => by rw [hnone] at h; cases h)
    | none =>
      simp only
      split
      · exact keeps_append _ _
      · exact keeps_refl _
  | addKind k d ov =>
    simp only [step, addTransceiverFromKind]
    repeat' split
    all_goals first | exact keeps_append _ _ | exact keeps_refl _
  | addFromTrack tr d ov =>
    simp only [step, addTransceiverFromTrack]
    split
    · exact keeps_append _ _
    · exact keeps_refl _
  | addEncoding i tr =>
    simp only [step, addEncoding]
    cases hget : s.trs[i]? with
    | none => exact keeps_refl _
    | some t =>
      simp only
      cases hsd : t.sender with
      | none => exact keeps_refl _
      | some sd =>
        simp only
        cases ha : sd.addEncoding s.eng tr s.nextSsrc with
        | error e => exact keeps_refl _
        | ok p =>
          obtain ⟨sd', n⟩ := p
          refine keeps_set _ _ t _ hget ?_
          intro x x' hx hx'
          rw [hsd] at hx; cases hx
          simp only [Option.some.injEq] at hx'; subst hx'
          exact addEncoding_ssrcs _ _ _ _ _ _ ha
  | removeTrack i =>
    simp only [step, removeTrack]
    cases hget : s.trs[i]? with
    | none => exact keeps_refl _
    | some t =>
      simp only
      cases hsd : t.sender with
      | none => exact keeps_refl _
      | some sd =>
        simp only
        cases t.dir <;> exact keeps_set _ _ t _ hget (fun _ _ _ h => by simp at h)
  | replaceTrack i tr =>
    simp only [step, replaceTrack]
    cases hget : s.trs[i]? with
    | none => exact keeps_refl _
    | some t =>
      simp only
      cases hsd : t.sender with
      | none => exact keeps_refl _
      | some sd =>
        simp only
        cases ha : sd.replaceTrack tr with
        | error e => exact keeps_refl _
        | ok sd' =>
          refine keeps_set _ _ t _ hget ?_
          intro x x' hx hx'
          rw [hsd] at hx; cases hx
          simp only [Option.some.injEq] at hx'; subst hx'
          rw [replaceTrack_ssrcs _ _ _ ha]
          exact List.prefix_refl _
  | stop i =>
    simp only [step, stopTransceiver]
    cases hget : s.trs[i]? with
    | none => exact keeps_refl _
    | some t =>
      refine keeps_set _ _ t _ hget ?_
      intro x x' hx hx'
      rw [hx] at hx'
      simp only [Option.map_some, Option.some.injEq] at hx'
      subst hx'
      exact List.prefix_refl _
  | dataChannel b =>
    simp only [step, createDataChannel]
    split <;> exact keeps_refl _
  | offer =>
    have := keeps_createOffer s hi
    simp only [step]
    split <;> rename_i h <;> rw [h] at this <;> exact this
  | setLocal =>
    simp only [step]
    repeat' split
    all_goals exact keeps_refl _

end WebrtcVerif.OfferSdp
