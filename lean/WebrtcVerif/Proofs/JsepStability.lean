import WebrtcVerif.Proofs.JsepHistory
/-! Lemmas for C09: transceivers keep their mids (Ext), created descriptions extend the remote description
    they are generated from, freshly numbered mids are new. -/
namespace WebrtcVerif.Jsep

/-! ### C09, clause 1: a transceiver keeps its kind, its place in the list and, once set, its mid -/

/-- `Keeps t t'`: the same transceiver later -/
def Keeps (t t' : Tr) : Prop := t'.kind = t.kind ∧ ∀ m, t.mid = some m → t'.mid = some m

theorem Keeps.refl (t : Tr) : Keeps t t := ⟨rfl, fun _ h => h⟩

theorem Keeps.trans {a b c : Tr} (h1 : Keeps a b) (h2 : Keeps b c) : Keeps a c :=
  ⟨h2.1.trans h1.1, fun m h => h2.2 m (h1.2 m h)⟩

/-- `Ext l l'`: `l'` is `l`, element by element the same transceivers later, possibly followed by new ones -/
inductive Ext : List Tr → List Tr → Prop
  | nil (l : List Tr) : Ext [] l
  | cons {t t' : Tr} {ts ts' : List Tr} : Keeps t t' → Ext ts ts' → Ext (t :: ts) (t' :: ts')

theorem Ext.refl : ∀ (l : List Tr), Ext l l
  | [] => .nil _
  | t :: ts => .cons (Keeps.refl t) (Ext.refl ts)

theorem Ext.trans : ∀ {a b c : List Tr}, Ext a b → Ext b c → Ext a c := by
  intro a b c h1
  induction h1 generalizing c with
  | nil l => intro _; exact .nil _
  | cons k _ ih =>
    intro h2
    cases h2 with
    | cons k2 h2' => exact .cons (k.trans k2) (ih h2')

theorem Ext.append (l x : List Tr) : Ext l (l ++ x) := by
  induction l with
  | nil => exact .nil _
  | cons t ts ih => exact .cons (Keeps.refl t) ih

/-- what `Ext` says index by index -/
theorem Ext.get {l l' : List Tr} (h : Ext l l') : ∀ (i : Nat) (t : Tr), l[i]? = some t →
    ∃ t', l'[i]? = some t' ∧ t'.kind = t.kind ∧ ∀ m, t.mid = some m → t'.mid = some m := by
  induction h with
  | nil l => intro i t hi; simp at hi
  | cons k _ ih =>
    intro i t hi
    cases i with
    | zero =>
      simp only [List.getElem?_cons_zero, Option.some.injEq] at hi
      subst hi
      exact ⟨_, by simp, k.1, k.2⟩
    | succ n =>
      simp only [List.getElem?_cons_succ] at hi ⊢
      exact ih n t hi

theorem Ext.of_map {f : Tr → Tr} (hf : ∀ t, Keeps t (f t)) : ∀ (l : List Tr), Ext l (l.map f)
  | [] => .nil _
  | t :: ts => .cons (hf t) (Ext.of_map hf ts)

theorem modifyNth_ext {f : Tr → Tr} (hf : ∀ t, Keeps t (f t)) : ∀ (i : Nat) (l : List Tr), Ext l (modifyNth f i l) := by
  intro i l
  induction l generalizing i with
  | nil => exact .nil _
  | cons t ts ih =>
    cases i with
    | zero => exact .cons (hf t) (Ext.refl ts)
    | succ n => exact .cons (Keeps.refl t) (ih n)

theorem updWhere_ext {p : Tr → Bool} {f : Tr → Tr} (hf : ∀ t, Keeps t (f t)) : ∀ {l l' : List Tr},
    updWhere p f l = some l' → Ext l l' := by
  intro l
  induction l with
  | nil => intro l' h; simp [updWhere] at h
  | cons t ts ih =>
    intro l' h
    cases hp : p t with
    | true =>
      simp only [updWhere, hp, ↓reduceIte, Option.some.injEq] at h
      subst h; exact .cons (hf t) (Ext.refl ts)
    | false =>
      simp only [updWhere, hp, Bool.false_eq_true, ↓reduceIte] at h
      split at h
      · rename_i r hr
        simp only [Option.some.injEq] at h
        subst h; exact .cons (Keeps.refl t) (ih hr)
      · cases h

theorem allocMids_ext : ∀ (l : List Tr) (g : Int), Ext l (allocMids g l).2 := by
  intro l
  induction l with
  | nil => intro g; exact .nil _
  | cons t ts ih =>
    intro g
    cases hm : t.mid with
    | some m => simp only [allocMids, hm]; exact .cons (Keeps.refl t) (ih _)
    | none =>
      simp only [allocMids, hm]
      exact .cons ⟨rfl, fun m h => by rw [hm] at h; cases h⟩ (ih _)

theorem Ext.middle {a b : Tr} (k : Keeps a b) (l2 : List Tr) : ∀ (l1 : List Tr), Ext (l1 ++ a :: l2) (l1 ++ b :: l2)
  | [] => .cons k (Ext.refl l2)
  | x :: xs => .cons (Keeps.refl x) (Ext.middle k l2 xs)

/-- working lists of the SetRemoteDescription / setRTPTransceiverCurrentDirection loops -/
theorem updFirst_ext {p : Tr → Bool} {f : Tr → Tr} (hf : ∀ t, p t = true → Keeps t (f t)) {w w' : List (Tr × Bool)}
    (h : updFirst p f w = some w') : Ext (w.map (·.1)) (w'.map (·.1)) := by
  obtain ⟨w1, t, w2, e1, hp, e2⟩ := updFirst_some h
  subst e1 e2
  simp only [List.map_append, List.map_cons]
  exact Ext.middle (hf t hp) _ _

theorem onFoundByMid_keeps (m : Mid) (d : Dir) (t : Tr) (h : t.mid = some m) : Keeps t (onFoundByMid m d t) := by
  refine ⟨?_, fun m' hm' => ?_⟩
  · unfold onFoundByMid Tr.setMidIfUnset
    by_cases hd : d = .inactive <;> simp [hd, Tr.stop, h]
  · rw [onFoundByMid_mid h]; rw [h] at hm'; exact hm'

theorem onSatisfied_keeps (m : Mid) (d : Dir) (t : Tr) (h : t.mid = none) : Keeps t (onSatisfied m d t) := by
  refine ⟨?_, fun m' hm' => by rw [h] at hm'; cases hm'⟩
  unfold onSatisfied Tr.setMidIfUnset
  simp [h]

theorem remoteSecStep_ext {st : St} {s : Sec} {w w' : List (Tr × Bool)} (h : remoteSecStep st s w = .ok w') :
    Ext (w.map (·.1)) (w'.map (·.1)) := by
  unfold remoteSecStep at h
  split at h
  · cases h
  · rename_i m hm
    split at h
    · simp only [Except.ok.injEq] at h; subst h; exact Ext.refl _
    · split at h
      · simp only [Except.ok.injEq] at h; subst h; exact Ext.refl _
      · simp only at h
        split at h
        · rename_i w'' hf
          simp only [Except.ok.injEq] at h; subst h
          exact updFirst_ext (fun t hp => onFoundByMid_keeps m _ t (by simpa using hp)) hf
        · split at h
          · rename_i w'' hs
            simp only [Except.ok.injEq] at h; subst h
            unfold satisfyUpd at hs
            obtain ⟨pd, _, hu⟩ := firstSome_some hs
            refine updFirst_ext (fun t hp => onSatisfied_keeps m _ t ?_) hu
            simp only [Bool.and_eq_true, decide_eq_true_eq] at hp
            exact hp.1.1
          · simp only [Except.ok.injEq] at h; subst h
            simp only [List.map_append]
            exact Ext.append _ _

theorem remoteLoop_ext (st : St) : ∀ (secs : List Sec) (w : List (Tr × Bool)),
    Ext (w.map (·.1)) ((remoteLoop st secs w).1.map (·.1)) := by
  intro secs
  induction secs with
  | nil => intro w; exact Ext.refl _
  | cons s rest ih =>
    intro w
    simp only [remoteLoop]
    split
    · exact Ext.refl _
    · rename_i w' hstep
      exact (remoteSecStep_ext hstep).trans (ih w')

theorem updByMid_ext {m : Mid} {f : Tr → Tr} (hf : ∀ t, Keeps t (f t)) : ∀ {w w' : List (Tr × Bool)},
    updByMid m f w = some w' → Ext (w.map (·.1)) (w'.map (·.1)) := by
  intro w
  induction w with
  | nil => intro w' h; simp [updByMid] at h
  | cons p ps ih =>
    intro w' h
    obtain ⟨t, used⟩ := p
    simp only [updByMid] at h
    split at h
    · simp only [Option.some.injEq] at h
      subst h; exact .cons (hf t) (Ext.refl _)
    · split at h
      · rename_i r hr
        simp only [Option.some.injEq] at h
        subst h; exact .cons (Keeps.refl t) (ih hr)
      · cases h

theorem curDirLoop_ext (weOffer : Bool) : ∀ (secs : List Sec) (w : List (Tr × Bool)),
    Ext (w.map (·.1)) ((curDirLoop weOffer secs w).map (·.1)) := by
  intro secs
  induction secs with
  | nil => intro w; exact Ext.refl _
  | cons s rest ih =>
    intro w
    simp only [curDirLoop]
    split
    · exact Ext.refl _
    · split
      · exact ih w
      · split
        · exact Ext.refl _
        · rename_i w' hw'
          refine (updByMid_ext ?_ hw').trans (ih w')
          intro t
          split
          · exact Keeps.refl t
          · exact ⟨rfl, fun _ h => h⟩

theorem setCurrentDirections_ext (d : Desc) (weOffer : Bool) (trs : List Tr) :
    Ext trs (setCurrentDirections d weOffer trs) := by
  unfold setCurrentDirections
  have := curDirLoop_ext weOffer d.secs (trs.map fun t => (t, false))
  simpa [List.map_map, Function.comp_def] using this

/-! per operation -/

theorem addTrack_ext (st : St) (k : Kind) : Ext st.trs (addTrack st k).trs := by
  unfold addTrack
  split
  · rename_i trs h
    exact updWhere_ext (f := Tr.attachTrack) (fun t => ⟨rfl, fun _ h => h⟩) h
  · exact Ext.append _ _

theorem addTransceiver_ext (st : St) (k : Kind) (d : Dir) : Ext st.trs (addTransceiver st k d).1.trs := by
  unfold addTransceiver
  split
  · split
    · exact Ext.append _ _
    · exact Ext.refl _
  · split
    · exact Ext.append _ _
    · exact Ext.refl _
  · exact Ext.append _ _
  · exact Ext.refl _

theorem removeTrack_ext (st : St) (i : Nat) : ∀ r, removeTrack st i = some r → Ext st.trs r.1.trs := by
  intro r h
  unfold removeTrack at h
  split at h
  · cases h
  · split at h
    · cases h
    · simp only [Option.some.injEq] at h
      subst h
      apply modifyNth_ext
      intro x
      unfold Tr.detachTrack
      split <;> exact ⟨rfl, fun _ h => h⟩

theorem stopTransceiver_ext (st : St) (i : Nat) : ∀ s, stopTransceiver st i = some s → Ext st.trs s.trs := by
  intro s h
  unfold stopTransceiver at h
  split at h
  · cases h
  · simp only [Option.some.injEq] at h
    subst h
    exact modifyNth_ext (f := Tr.stop) (fun _ => ⟨rfl, fun _ h => h⟩) _ _

theorem offerState_ext (st : St) : Ext st.trs (offerState st).trs := by
  unfold offerState
  split
  · exact Ext.refl _
  · exact allocMids_ext _ _

theorem createOffer_ext (st : St) : Ext st.trs (createOffer st).1.trs := by
  unfold createOffer
  split
  · exact offerState_ext st
  · split
    · exact offerState_ext st
    · rw [(register_same _ _).1]; exact offerState_ext st

theorem narrow_keeps (ans : Bool) (d : Dir) (t : Tr) : Keeps t (t.narrow ans d) :=
  ⟨Tr.narrow_kind ans d t, fun m h => by rw [Tr.narrow_mid]; exact h⟩

theorem narrowLoop_ext : ∀ (secs : List Sec) (w : List (Tr × Bool)),
    Ext (w.map (·.1)) ((narrowLoop secs w).map (·.1)) := by
  intro secs
  induction secs with
  | nil => intro w; exact Ext.refl _
  | cons s rest ih =>
    intro w
    simp only [narrowLoop]
    split
    · exact Ext.refl _
    · split
      · exact ih w
      · split
        · exact ih w
        · split
          · exact Ext.refl _
          · rename_i w' hw'
            exact (updFirst_ext (fun t _ => narrow_keeps true _ t) hw').trans (ih w')

theorem answerState_ext (st : St) (r : Desc) : Ext st.trs (answerState st r).trs := by
  unfold answerState
  simp only
  split
  · exact Ext.refl _
  · have := narrowLoop_ext r.secs (st.trs.map fun t => (t, false))
    simpa [List.map_map, Function.comp_def] using this

theorem createAnswer_ext (st : St) : Ext st.trs (createAnswer st).1.trs := by
  unfold createAnswer
  split
  · exact Ext.refl _
  · split
    · exact Ext.refl _
    · split
      · exact answerState_ext st _
      · rw [(register_same _ _).1]; exact answerState_ext st _

theorem setLocal_ext (st : St) (n : Nat) (d : Desc) : Ext st.trs (setLocal st n d).1.trs := by
  rcases setLocal_shape st n d with h | ⟨st1, trs, h1, h2⟩
  · rw [h]; exact Ext.refl _
  · obtain ⟨t1, _⟩ := setDescLocal_same h1
    unfold setLocal
    rw [h1]
    simp only
    split
    · simp only; rw [← t1]; exact setCurrentDirections_ext _ _ _
    · rw [t1]; exact Ext.refl _

theorem remoteTrs_ext (st : St) (d : Desc) : Ext st.trs (remoteTrs st d).1 := by
  unfold remoteTrs
  split
  · have := remoteLoop_ext st d.secs (st.trs.map fun t => (t, false))
    simpa [List.map_map, Function.comp_def] using this
  · exact Ext.refl _

theorem setRemote_ext (st : St) (d : Desc) : Ext st.trs (setRemote st d).1.trs := by
  rcases setRemote_shape st d with h | ⟨st1, h1, h2⟩
  · rw [h]; exact Ext.refl _
  · obtain ⟨t1, _⟩ := setDescRemote_same h1
    obtain ⟨t2, _⟩ := engineUpdate_same d st1
    have base : Ext st.trs (remoteTrs (engineUpdate st1 d) d).1 := by
      have := remoteTrs_ext (engineUpdate st1 d) d
      rw [t2, t1] at this; exact this
    rcases h2 with h2 | ⟨_, h2⟩
    · rw [h2]; exact base
    · rw [h2]; exact base.trans (setCurrentDirections_ext _ _ _)

theorem step_ext (w : World) (op : Op) (p : Peer) : Ext (w.get p).trs ((step w op).1.get p).trs := by
  have hset : ∀ (q : Peer) (s : St), Ext (w.get q).trs s.trs → Ext (w.get p).trs ((w.set q s).get p).trs := by
    intro q s h
    cases p <;> cases q <;> first | exact h | exact Ext.refl _
  cases op with
  | addTrack q k => exact hset q _ (addTrack_ext _ k)
  | addTransceiver q k d => exact hset q _ (addTransceiver_ext _ k d)
  | createDC q => exact hset q _ (Ext.refl _)
  | removeTrack q i =>
    simp only [step]
    split
    · exact Ext.refl _
    · rename_i r hr; exact hset q _ (removeTrack_ext _ i r hr)
  | stop q i =>
    simp only [step]
    split
    · exact Ext.refl _
    · rename_i s hs; exact hset q _ (stopTransceiver_ext _ i s hs)
  | createOffer q => exact hset q _ (createOffer_ext _)
  | createAnswer q => exact hset q _ (createAnswer_ext _)
  | setLocal q old =>
    simp only [step]
    split
    · exact Ext.refl _
    · exact hset q _ (setLocal_ext _ _ _)
  | setRemote q =>
    simp only [step]
    split
    · exact Ext.refl _
    · exact hset q _ (setRemote_ext _ _)
  | setRemoteSyn q d => exact hset q _ (setRemote_ext _ _)

theorem finalWorld_ext : ∀ (ops : List Op) (w : World) (p : Peer), Ext (w.get p).trs ((finalWorld w ops).get p).trs := by
  intro ops
  induction ops with
  | nil => intro w p; exact Ext.refl _
  | cons op ops ih => intro w p; exact (step_ext w op p).trans (ih _ p)

/-! ### C09, clauses 2 and 3: descriptions extend the remote description; numbered mids are new -/

theorem populate_mids {st : St} {typ : SdpType} {role : Setup} {grp : Option (Option (List Mid))} {ms : List MSec} {d : Desc}
    (h : populate st typ role grp ms = .ok d) : d.secs.map (·.mid) = ms.map (fun m => some m.id) ∧ d.typ = typ := by
  unfold populate at h
  split at h
  · cases h
  · rename_i ss b hs
    simp only [Except.ok.injEq] at h
    subst h
    exact ⟨(populateSecs_spec hs).1, rfl⟩

/-- whatever the semantics: the description generated on top of a remote description starts with that
    description's mids, in its order -/
theorem generateMatched_prefix {st : St} {r : Desc} {inc : Bool} {role : Setup} {d : Desc}
    (h : generateMatched st r inc role = .ok d) : (r.secs.map (·.mid)).IsPrefix (d.secs.map (·.mid)) := by
  unfold generateMatched at h
  simp only at h
  split at h
  · cases h
  · rename_i ms left app hml
    have hids := matchLoop_ids _ _ _ _ _ _ _ _ hml
    cases inc with
    | false =>
      simp only [Bool.false_eq_true, if_false] at h
      rw [(populate_mids h).1, hids]
      exact List.prefix_refl _
    | true =>
      simp only [if_true] at h
      rw [(populate_mids h).1, ← hids]
      split
      · split
        · rw [List.map_append]; exact List.prefix_append _ _
        · rw [List.map_append, List.map_append, List.append_assoc]; exact List.prefix_append _ _
      · split
        · exact List.prefix_refl _
        · rw [List.map_append]; exact List.prefix_append _ _

theorem offerState_fields (st : St) :
    (offerState st).curRemote = st.curRemote ∧ (offerState st).pendRemote = st.pendRemote ∧
    (offerState st).curLocal = st.curLocal ∧ (offerState st).pendLocal = st.pendLocal ∧
    (offerState st).sig = st.sig ∧ (offerState st).cfg = st.cfg ∧ (offerState st).created = st.created ∧
    (offerState st).serial = st.serial ∧ (offerState st).lastOffer = st.lastOffer := by
  unfold offerState
  split <;> exact ⟨rfl, rfl, rfl, rfl, rfl, rfl, rfl, rfl, rfl⟩

/-- every offer created on top of a remote description extends it (every SDPSemantics) -/
theorem offer_extends_remote (st : St) (d r : Desc) (h : (createOffer st).2 = .ok d)
    (hcur : st.curRemote.isSome = true) (hrd : st.remoteDesc = some r) :
    (r.secs.map (·.mid)).IsPrefix (d.secs.map (·.mid)) := by
  obtain ⟨_, hd⟩ := createOffer_ok h
  obtain ⟨f1, f2, _⟩ := offerState_fields st
  unfold offerDesc at hd
  rw [f1] at hd
  cases hc : st.curRemote with
  | none => simp [hc] at hcur
  | some c =>
    have : (offerState st).remoteDesc = some r := by
      unfold St.remoteDesc at hrd ⊢; rw [f1, f2]; exact hrd
    simp only [hc, this] at hd
    exact generateMatched_prefix hd

/-- every decimal mid of the four descriptions the peer holds was seen by CreateOffer's scan -/
theorem scanAll_four (st : St) (x : Desc)
    (hx : st.curRemote = some x ∨ st.pendRemote = some x ∨ st.curLocal = some x ∨ st.pendLocal = some x)
    (s : Sec) (hs : s ∈ x.secs) (n : Nat) (hm : s.mid = some (.num n)) (hn : (n : Int) ≤ maxInt64) :
    (n : Int) ≤ scanAll st := by
  unfold scanAll
  refine Int.le_trans ?_ (scanTrs_ge _ _)
  rcases hx with h | h | h | h
  · refine Int.le_trans ?_ (scanDesc_ge _ _)
    refine Int.le_trans ?_ (scanDesc_ge _ _)
    refine Int.le_trans ?_ (scanDesc_ge _ _)
    rw [h]; exact scanDesc_bound _ _ s hs _ _ hm (num_atoi hn)
  · refine Int.le_trans ?_ (scanDesc_ge _ _)
    refine Int.le_trans ?_ (scanDesc_ge _ _)
    rw [h]; exact scanDesc_bound _ _ s hs _ _ hm (num_atoi hn)
  · refine Int.le_trans ?_ (scanDesc_ge _ _)
    rw [h]; exact scanDesc_bound _ _ s hs _ _ hm (num_atoi hn)
  · rw [h]; exact scanDesc_bound _ _ s hs _ _ hm (num_atoi hn)

/-- the mids CreateOffer hands out are new: no transceiver held them and none of the descriptions the
    peer holds (current or pending, local or remote) carries them -/
theorem numbered_mids_fresh (st : St) (hsem : st.cfg.sem ≠ .planB) (inv : PeerInv st) (hw : NoWrap st) :
    ∀ t' ∈ (offerState st).trs, t' ∈ st.trs ∨
      ∃ k : Nat, t'.mid = some (.num k) ∧ (∀ t ∈ st.trs, t.mid ≠ some (.num k)) ∧
        ∀ x, (st.curRemote = some x ∨ st.pendRemote = some x ∨ st.curLocal = some x ∨ st.pendLocal = some x) →
          ∀ s ∈ x.secs, s.mid ≠ some (.num k) := by
  intro t' ht'
  rw [offerState_eq hsem] at ht'
  have hg0 : -1 ≤ scanAll st := Int.le_trans inv.counter (scanAll_ge st)
  rcases allocMids_mem st.trs (scanAll st) hg0 hw t' ht' with hold | ⟨k, hk1, hk2, hk3⟩
  · exact Or.inl hold
  · right
    have hkmax : (k : Int) ≤ maxInt64 := by unfold NoWrap at hw; omega
    refine ⟨k, hk3, ?_, ?_⟩
    · intro t ht htm
      rcases scanAll_trs st t ht k htm with h | h <;> omega
    · intro x hx s hs hsm
      have := scanAll_four st x hx s hs k hsm hkmax
      omega

end WebrtcVerif.Jsep
