import WebrtcVerif.Proofs.AnswerLemmas
/-! setCodecPreferencesFromRemoteDescription (repaired) never hands SetCodecPreferences a payload type twice (C10). -/
namespace WebrtcVerif.AnswerCodecs
open WebrtcVerif.Codec

def pts (l : List CodecP) : List Nat := l.map (·.pt)

theorem eraseFirstPt_pts : ∀ (l : List CodecP) (pt : Nat), pts (eraseFirstPt l pt) = (pts l).erase pt := by
  intro l
  induction l with
  | nil => intro pt; rfl
  | cons c cs ih =>
    intro pt
    unfold eraseFirstPt
    by_cases h : c.pt = pt
    · simp [h, pts]
    · have h' : ¬ (c.pt == pt) = true := by simpa using h
      simp only [h, if_false, pts, List.map_cons, List.erase_cons, h']
      have := ih pt
      simp only [pts] at this
      simp [this]

/-- a round moves payload types from the codecs left to the codecs selected: nothing is duplicated -/
theorem filterByMatchType_perm (mt : MatchType) (hmt : mt ≠ .mNone) : ∀ (rs left : List CodecP) (m : PtMap),
    (pts (filterByMatchType mt rs left m).out ++ pts (filterByMatchType mt rs left m).left).Perm (pts left) := by
  intro rs
  induction rs with
  | nil => intro left m; simp [filterByMatchType, pts]
  | cons rc rest ih =>
    intro left m
    have ih' := ih left m
    unfold filterByMatchType
    simp only
    split
    · exact ih'
    · generalize hf : fuzzySearch rc (filterByMatchType mt rest left m).left = res
      rcases res with ⟨mc, t⟩
      simp only
      split
      · rename_i ht
        subst ht
        have hm := (fuzzy_matchedAs hf hmt).1
        have hmem : mc.pt ∈ pts (filterByMatchType t rest left m).left := List.mem_map_of_mem (f := fun c => c.pt) hm
        simp only [pts, List.map_cons] at ih' ⊢
        have e := eraseFirstPt_pts (filterByMatchType t rest left m).left mc.pt
        simp only [pts] at e hmem
        rw [e]
        refine List.Perm.trans ?_ ih'
        -- mc.pt :: (out ++ left.erase mc.pt) ~ out ++ left
        have h1 : (List.map (fun x => x.pt) (filterByMatchType t rest left m).left).Perm
            (mc.pt :: (List.map (fun x => x.pt) (filterByMatchType t rest left m).left).erase mc.pt) :=
          List.perm_cons_erase hmem
        have h2 := List.Perm.append_left (List.map (fun x => x.pt) (filterByMatchType t rest left m).out) h1
        refine List.Perm.trans ?_ h2.symm
        simp only [List.cons_append]
        exact (List.perm_middle).symm
      · exact ih'

theorem findRTX_mem {needle : Nat} {hay : List CodecP} (h : findRTXPayloadType needle hay ≠ 0) :
    ∃ c ∈ hay, c.pt = findRTXPayloadType needle hay ∧ c.fmtp = "apt=".toList ++ showNat needle := by
  unfold findRTXPayloadType at h ⊢
  cases hf : hay.find? (fun c => c.fmtp == "apt=".toList ++ showNat needle) with
  | none => rw [hf] at h; exact absurd rfl h
  | some c => exact ⟨c, List.mem_of_find?_eq_some hf, rfl, by simpa using List.find?_some hf⟩

set_option maxRecDepth 100000 in
theorem digitsVal_showNat : ∀ n, n < 256 → digitsVal (showNat n) = n := by decide

theorem showNat_inj {a b : Nat} (ha : a < 256) (hb : b < 256) (h : showNat a = showNat b) : a = b := by
  rw [← digitsVal_showNat a ha, ← digitsVal_showNat b hb, h]

/-! ### the payload type mapping -/

def vals (m : PtMap) : List Nat := m.map (·.2)

theorem vals_insert_subset : ∀ (m : PtMap) (k v : Nat), ∀ a ∈ vals (m.insert k v), a = v ∨ a ∈ vals m := by
  intro m
  induction m with
  | nil => intro k v a ha; simp [PtMap.insert, vals] at ha; exact Or.inl ha
  | cons e rest ih =>
    intro k v a ha
    rcases e with ⟨k', v'⟩
    by_cases hk : k' = k
    · simp only [PtMap.insert, hk, if_true, vals, List.map_cons, List.mem_cons] at ha
      rcases ha with ha | ha
      · exact Or.inl ha
      · exact Or.inr (by simp [vals, ha])
    · simp only [PtMap.insert, hk, if_false, vals, List.map_cons, List.mem_cons] at ha
      rcases ha with ha | ha
      · exact Or.inr (by simp [vals, ha])
      · rcases ih k v a ha with h | h
        · exact Or.inl h
        · exact Or.inr (by simp only [vals, List.map_cons, List.mem_cons]; exact Or.inr h)

theorem vals_insert_nodup : ∀ (m : PtMap) (k v : Nat), (vals m).Nodup → v ∉ vals m → (vals (m.insert k v)).Nodup := by
  intro m
  induction m with
  | nil => intro k v _ _; simp [PtMap.insert, vals]
  | cons e rest ih =>
    intro k v hnd hv
    rcases e with ⟨k', v'⟩
    simp only [vals, List.map_cons, List.nodup_cons, List.mem_cons, not_or] at hnd hv
    by_cases hk : k' = k
    · simp only [PtMap.insert, hk, if_true, vals, List.map_cons, List.nodup_cons]
      exact ⟨hv.2, hnd.2⟩
    · simp only [PtMap.insert, hk, if_false, vals, List.map_cons, List.nodup_cons]
      refine ⟨?_, ih k v hnd.2 hv.2⟩
      intro hmem
      rcases vals_insert_subset rest k v v' hmem with h | h
      · exact hv.1 h.symm
      · exact hnd.1 h

/-- a round keeps the mapped-to payload types distinct: each is the payload type of a codec that was still
    left when it was chosen -/
theorem filterByMatchType_vals (mt : MatchType) (hmt : mt ≠ .mNone) : ∀ (rs left : List CodecP) (m : PtMap),
    (pts left).Nodup → (vals m).Nodup → (∀ v ∈ vals m, v ∉ pts left) →
    (vals (filterByMatchType mt rs left m).mapping).Nodup ∧
    (∀ v ∈ vals (filterByMatchType mt rs left m).mapping, v ∈ vals m ∨ v ∈ pts (filterByMatchType mt rs left m).out) := by
  intro rs
  induction rs with
  | nil => intro left m _ hm _; exact ⟨by simpa [filterByMatchType] using hm, fun v hv => Or.inl (by simpa [filterByMatchType] using hv)⟩
  | cons rc rest ih =>
    intro left m hl hm hdis
    obtain ⟨ih1, ih2⟩ := ih left m hl hm hdis
    have hperm := filterByMatchType_perm mt hmt rest left m
    unfold filterByMatchType
    simp only
    split
    · exact ⟨ih1, ih2⟩
    · generalize hf : fuzzySearch rc (filterByMatchType mt rest left m).left = res
      rcases res with ⟨mc, t⟩
      simp only
      split
      · rename_i ht
        subst ht
        have hmc := (fuzzy_matchedAs hf hmt).1
        have hmcpt : mc.pt ∈ pts (filterByMatchType t rest left m).left := List.mem_map_of_mem (f := fun c => c.pt) hmc
        have hnd : (pts (filterByMatchType t rest left m).out ++ pts (filterByMatchType t rest left m).left).Nodup :=
          hperm.nodup_iff.mpr hl
        have hnot_out : mc.pt ∉ pts (filterByMatchType t rest left m).out := by
          intro h; exact (List.nodup_append.mp hnd).2.2 _ h _ hmcpt rfl
        have hnot_m : mc.pt ∉ vals m := by
          intro h; exact hdis _ h (hperm.subset (List.mem_append_right _ hmcpt))
        have hnot : mc.pt ∉ vals (filterByMatchType t rest left m).mapping := by
          intro h
          rcases ih2 _ h with h | h
          · exact hnot_m h
          · exact hnot_out h
        refine ⟨vals_insert_nodup _ _ _ ih1 hnot, ?_⟩
        intro v hv
        rcases vals_insert_subset _ _ _ v hv with h | h
        · subst h; exact Or.inr (by simp [pts])
        · rcases ih2 v h with h | h
          · exact Or.inl h
          · exact Or.inr (by simp only [pts, List.map_cons, List.mem_cons]; exact Or.inr h)
      · exact ⟨ih1, ih2⟩

/-! ### the RTX entries -/

theorem eq_of_pt_eq {l : List CodecP} (h : (pts l).Nodup) {a b : CodecP} (ha : a ∈ l) (hb : b ∈ l) (hab : a.pt = b.pt) :
    a = b := by
  induction l with
  | nil => cases ha
  | cons c cs ih =>
    simp only [pts, List.map_cons, List.nodup_cons] at h
    rcases List.mem_cons.mp ha with ha1 | ha1
    · rcases List.mem_cons.mp hb with hb1 | hb1
      · rw [ha1, hb1]
      · exfalso; apply h.1; rw [← ha1, hab]; exact List.mem_map_of_mem (f := fun c => c.pt) hb1
    · rcases List.mem_cons.mp hb with hb1 | hb1
      · exfalso; apply h.1; rw [← hb1, ← hab]; exact List.mem_map_of_mem (f := fun c => c.pt) ha1
      · exact ih h.2 ha1 hb1

theorem rtxFor_spec {remote left : List CodecP} {kv : Nat × Nat} {l : CodecP} (h : rtxFor remote left kv = some l) :
    l ∈ left ∧ ∃ c ∈ left, c.pt = l.pt ∧ c.fmtp = "apt=".toList ++ showNat kv.2 := by
  unfold rtxFor at h
  split at h
  · cases h
  · simp only at h
    split at h
    · cases h
    · rename_i hne
      have hl := List.mem_of_find?_eq_some h
      have hpt : l.pt = findRTXPayloadType kv.2 left := by simpa using List.find?_some h
      rcases findRTX_mem hne with ⟨c, hc, hcpt, hcf⟩
      exact ⟨hl, c, hc, hcpt.trans hpt.symm, hcf⟩

theorem filterMap_pts_nodup {left remote : List CodecP} (hl : (pts left).Nodup) : ∀ (m : PtMap), (vals m).Nodup →
    (∀ v ∈ vals m, v < 256) → (pts (m.filterMap (rtxFor remote left))).Nodup := by
  intro m
  induction m with
  | nil => intro _ _; simp [pts]
  | cons kv rest ih =>
    intro hnd hlt
    simp only [vals, List.map_cons, List.nodup_cons] at hnd
    have ih' := ih hnd.2 (fun v hv => hlt v (by simp only [vals, List.map_cons, List.mem_cons]; exact Or.inr hv))
    rw [List.filterMap_cons]
    cases hkv : rtxFor remote left kv with
    | none => exact ih'
    | some l =>
      simp only [pts, List.map_cons, List.nodup_cons]
      refine ⟨?_, ih'⟩
      intro hmem
      rcases List.mem_map.mp hmem with ⟨l', hl', hpt⟩
      rcases List.mem_filterMap.mp hl' with ⟨kv', hkv', hr'⟩
      obtain ⟨hlm, c, hc, hcpt, hcf⟩ := rtxFor_spec hkv
      obtain ⟨hlm', c', hc', hcpt', hcf'⟩ := rtxFor_spec hr'
      have hcc : c = c' := eq_of_pt_eq hl hc hc' (by rw [hcpt, hcpt', hpt])
      subst hcc
      have hshow : showNat kv.2 = showNat kv'.2 := by
        have := hcf.symm.trans hcf'
        exact List.append_cancel_left this
      have hv : kv.2 = kv'.2 := showNat_inj (hlt kv.2 (by simp [vals]))
        (hlt kv'.2 (by simp only [vals, List.map_cons, List.mem_cons]; exact Or.inr (List.mem_map_of_mem (f := fun x => x.2) hkv'))) hshow
      exact hnd.1 (hv ▸ List.mem_map_of_mem (f := fun x => x.2) hkv')

/-- **setCodecPreferencesFromRemoteDescription (repaired) hands SetCodecPreferences each payload type at most
    once**, whatever the remote section lists and in whatever order Go walks the payload type mapping — given
    that the codec list of the kind has distinct payload types (an invariant of the MediaEngine). -/
theorem remotePreferenceList_nodup (order : PtMap → PtMap) (horder : ∀ m, (order m).Perm m) (e rs : List CodecP)
    (he : (pts e).Nodup) (hlt : ∀ c ∈ e, c.pt < 256) : (pts (remotePreferenceList order e rs)).Nodup := by
  unfold remotePreferenceList
  simp only
  have p1 := filterByMatchType_perm .mExact (by simp) rs e []
  have v1 := filterByMatchType_vals .mExact (by simp) rs e [] he (by simp [vals]) (by simp [vals])
  generalize filterByMatchType .mExact rs e [] = r1 at p1 v1 ⊢
  have hnd1 : (pts r1.out ++ pts r1.left).Nodup := p1.nodup_iff.mpr he
  have hl1 : (pts r1.left).Nodup := (List.nodup_append.mp hnd1).2.1
  have hdis1 : ∀ v ∈ vals r1.mapping, v ∉ pts r1.left := by
    intro v hv hmem
    rcases v1.2 v hv with h | h
    · simp [vals] at h
    · exact (List.nodup_append.mp hnd1).2.2 _ h _ hmem rfl
  have p2 := filterByMatchType_perm .mPartial (by simp) r1.remote r1.left r1.mapping
  have v2 := filterByMatchType_vals .mPartial (by simp) r1.remote r1.left r1.mapping hl1 v1.1 hdis1
  generalize filterByMatchType .mPartial r1.remote r1.left r1.mapping = r2 at p2 v2 ⊢
  -- all payload types involved are payload types of `e`
  have hall : (pts r1.out ++ (pts r2.out ++ pts r2.left)).Perm (pts e) :=
    (List.Perm.append_left _ p2).trans p1
  have hndall : (pts r1.out ++ (pts r2.out ++ pts r2.left)).Nodup := hall.nodup_iff.mpr he
  have hl2 : (pts r2.left).Nodup := (List.nodup_append.mp (List.nodup_append.mp hndall).2.1).2.1
  have hvals_lt : ∀ v ∈ vals r2.mapping, v < 256 := by
    intro v hv
    have hin : v ∈ pts e := by
      rcases v2.2 v hv with h | h
      · rcases v1.2 v h with h | h
        · simp [vals] at h
        · exact hall.subset (List.mem_append_left _ h)
      · exact hall.subset (List.mem_append_right _ (List.mem_append_left _ h))
    rcases List.mem_map.mp hin with ⟨c, hc, rfl⟩
    exact hlt c hc
  have hvals_ord : (vals (order r2.mapping)).Nodup := ((horder r2.mapping).map _).nodup_iff.mpr v2.1
  have hvals_ord_lt : ∀ v ∈ vals (order r2.mapping), v < 256 :=
    fun v hv => hvals_lt v (((horder r2.mapping).map _).subset hv)
  have hA := filterMap_pts_nodup (remote := r2.remote) hl2 (order r2.mapping) hvals_ord hvals_ord_lt
  have hAsub : ∀ a ∈ pts ((order r2.mapping).filterMap (rtxFor r2.remote r2.left)), a ∈ pts r2.left := by
    intro a ha
    rcases List.mem_map.mp ha with ⟨l, hl, rfl⟩
    rcases List.mem_filterMap.mp hl with ⟨kv, _, hkv⟩
    exact List.mem_map_of_mem (f := fun c => c.pt) (rtxFor_mem hkv)
  -- assemble
  simp only [pts, List.map_append] at hndall hA hAsub ⊢
  rw [List.append_assoc]
  have h12 := List.nodup_append.mp hndall
  have h2l := List.nodup_append.mp h12.2.1
  refine List.nodup_append.mpr ⟨h12.1, List.nodup_append.mpr ⟨h2l.1, hA, ?_⟩, ?_⟩
  · intro a ha b hb; exact h2l.2.2 a ha b (hAsub b hb)
  · intro a ha b hb
    rcases List.mem_append.mp hb with hb | hb
    · exact h12.2.2 a ha b (List.mem_append_left _ hb)
    · exact h12.2.2 a ha b (List.mem_append_right _ (hAsub b hb))

end WebrtcVerif.AnswerCodecs
