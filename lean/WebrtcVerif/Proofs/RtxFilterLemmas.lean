import WebrtcVerif.Model.Codec
/-! Lemmas about `filterUnattachedRTX` / `transceiverGetCodecs` (used by C10 and C16). -/
namespace WebrtcVerif.Codec

/-- the codec is RTX in the sense of `primaryPayloadTypeForRTXExists` (mime type video/rtx, any case) -/
def isRTX (c : CodecP) : Bool := equalFold c.mime mimeRTX

/-- the payload type named by the codec's `apt` parameter, as `primaryPayloadTypeForRTXExists` reads it -/
def aptPt (c : CodecP) : Option Nat :=
  match c.parse.params.get "apt".toList with
  | none => none
  | some apt =>
    match atoiPt apt with
    | none => none
    | some n => if n > 255 then none else some n

def hasPt (hay : List CodecP) (n : Nat) : Bool := hay.any (fun c => c.pt == n)

/-- an RTX codec whose primary is not in `hay` -/
def unattached (c : CodecP) (hay : List CodecP) : Bool :=
  isRTX c && !(match aptPt c with | some n => hasPt hay n | none => false)

theorem primary_eq (c : CodecP) (hay : List CodecP) :
    primaryForRTXExists c hay =
      (isRTX c, isRTX c && (match aptPt c with | some n => hasPt hay n | none => false)) := by
  unfold primaryForRTXExists isRTX aptPt hasPt
  by_cases h : equalFold c.mime mimeRTX = true
  · simp only [h, Bool.not_true, Bool.false_eq_true, if_false, Bool.true_and]
    cases hp : c.parse.params.get "apt".toList with
    | none => simp
    | some apt =>
      simp only
      cases ha : atoiPt apt with
      | none => simp
      | some n =>
        simp only
        by_cases hn : n > 255 <;> simp [hn]
  · simp [h]

theorem step_cond (c : CodecP) (cs : List CodecP) :
    ((primaryForRTXExists c cs).1 && !(primaryForRTXExists c cs).2) = unattached c cs := by
  rw [primary_eq]; unfold unattached
  cases isRTX c <;> simp

/-- `filterUnattachedRTX` with the prefix still to visit reversed (`rp`) and the suffix already kept -/
def filtRev : List CodecP → List CodecP → List CodecP
  | [], suf => suf
  | c :: rp, suf =>
    if unattached c (rp.reverse ++ c :: suf) then filtRev rp suf else filtRev rp (c :: suf)

theorem filterRTXFrom_eq : ∀ (rp suf : List CodecP),
    filterRTXFrom rp.length (rp.reverse ++ suf) = filtRev rp suf := by
  intro rp
  induction rp with
  | nil => intro suf; simp [filterRTXFrom, filtRev]
  | cons c rp ih =>
    intro suf
    have hlist : (c :: rp).reverse ++ suf = rp.reverse ++ c :: suf := by simp
    rw [hlist]
    have hget : (rp.reverse ++ c :: suf)[rp.length]? = some c := by
      rw [List.getElem?_append_right (by simp)]; simp
    have herase : (rp.reverse ++ c :: suf).eraseIdx rp.length = rp.reverse ++ suf := by
      rw [List.eraseIdx_append_of_length_le (by simp)]; simp
    show filterRTXFrom (rp.length + 1) (rp.reverse ++ c :: suf) = _
    unfold filterRTXFrom
    simp only [hget, step_cond]
    unfold filtRev
    by_cases hu : unattached c (rp.reverse ++ c :: suf) = true
    · simp only [hu, if_true, herase]
      exact ih suf
    · simp only [hu]
      exact ih (c :: suf)

theorem filterUnattachedRTX_eq (cs : List CodecP) : filterUnattachedRTX cs = filtRev cs.reverse [] := by
  have := filterRTXFrom_eq cs.reverse []
  simp at this
  unfold filterUnattachedRTX
  exact this

theorem filtRev_sublist : ∀ (rp suf : List CodecP), (filtRev rp suf).Sublist (rp.reverse ++ suf) := by
  intro rp
  induction rp with
  | nil => intro suf; simp [filtRev]
  | cons c rp ih =>
    intro suf
    unfold filtRev
    have hlist : (c :: rp).reverse ++ suf = rp.reverse ++ c :: suf := by simp
    rw [hlist]
    split
    · exact (ih suf).trans (List.Sublist.append_left (List.sublist_cons_self c suf) _)
    · exact ih (c :: suf)

theorem filterUnattachedRTX_sublist (cs : List CodecP) : (filterUnattachedRTX cs).Sublist cs := by
  rw [filterUnattachedRTX_eq]
  simpa using filtRev_sublist cs.reverse []

theorem filterUnattachedRTX_nodup {cs : List CodecP} (h : (cs.map (·.pt)).Nodup) :
    ((filterUnattachedRTX cs).map (·.pt)).Nodup :=
  ((filterUnattachedRTX_sublist cs).map _).nodup h

theorem mem_of_mem_filterUnattachedRTX {cs : List CodecP} {c : CodecP} (h : c ∈ filterUnattachedRTX cs) : c ∈ cs :=
  (filterUnattachedRTX_sublist cs).subset h

/-- whatever is already kept stays, and every codec that is not RTX stays -/
theorem filtRev_keeps : ∀ (rp suf : List CodecP) (p : CodecP),
    (p ∈ suf ∨ (p ∈ rp ∧ isRTX p = false)) → p ∈ filtRev rp suf := by
  intro rp
  induction rp with
  | nil => intro suf p h; rcases h with h | ⟨h, _⟩; exact h; simp at h
  | cons c rp ih =>
    intro suf p h
    unfold filtRev
    split
    · rename_i hu
      apply ih
      rcases h with h | ⟨h, hr⟩
      · exact Or.inl h
      · rcases List.mem_cons.mp h with h | h
        · subst h
          unfold unattached at hu
          rw [hr] at hu; simp at hu
        · exact Or.inr ⟨h, hr⟩
    · apply ih
      rcases h with h | ⟨h, hr⟩
      · exact Or.inl (List.mem_cons_of_mem _ h)
      · rcases List.mem_cons.mp h with h | h
        · subst h; exact Or.inl (List.mem_cons_self)
        · exact Or.inr ⟨h, hr⟩

/-- no RTX codec names another RTX codec as its primary (it may name itself) -/
def NoRtxChain (l : List CodecP) : Prop :=
  ∀ r ∈ l, isRTX r = true → ∀ n, aptPt r = some n → ∀ p ∈ l, p.pt = n → isRTX p = false ∨ p = r

/-- every RTX codec of the list names a payload type that is in the list -/
def RtxAttached (l : List CodecP) : Prop :=
  ∀ r ∈ l, isRTX r = true → ∃ n, aptPt r = some n ∧ ∃ p ∈ l, p.pt = n

theorem NoRtxChain.sublist {l l' : List CodecP} (h : NoRtxChain l) (hs : l'.Sublist l) : NoRtxChain l' :=
  fun r hr hx n hn p hp hpn => h r (hs.subset hr) hx n hn p (hs.subset hp) hpn

theorem not_unattached {c : CodecP} {hay : List CodecP} (hx : isRTX c = true) (h : unattached c hay = false) :
    ∃ n, aptPt c = some n ∧ ∃ p ∈ hay, p.pt = n := by
  unfold unattached at h
  rw [hx] at h
  cases ha : aptPt c with
  | none => rw [ha] at h; simp at h
  | some n =>
    rw [ha] at h
    simp only [Bool.true_and, Bool.not_eq_false'] at h
    unfold hasPt at h
    rcases List.any_eq_true.mp h with ⟨p, hp, hpn⟩
    exact ⟨n, rfl, p, hp, by simpa using hpn⟩

theorem filtRev_attached : ∀ (rp suf : List CodecP), NoRtxChain (rp.reverse ++ suf) →
    (∀ r ∈ suf, isRTX r = true → ∃ n, aptPt r = some n ∧ ∃ p ∈ rp.reverse ++ suf, p.pt = n) →
    RtxAttached (filtRev rp suf) := by
  intro rp
  induction rp with
  | nil =>
    intro suf _ hs
    simpa [filtRev, RtxAttached] using hs
  | cons c rp ih =>
    intro suf hnc hs
    have hlist : (c :: rp).reverse ++ suf = rp.reverse ++ c :: suf := by simp
    rw [hlist] at hnc hs
    unfold filtRev
    split
    · rename_i hu
      have hcx : isRTX c = true := by
        unfold unattached at hu
        cases hx : isRTX c <;> simp [hx] at hu ⊢
      apply ih suf
      · exact hnc.sublist (List.Sublist.append_left (List.sublist_cons_self c suf) _)
      · intro r hr hx
        rcases hs r hr hx with ⟨n, hn, p, hp, hpn⟩
        refine ⟨n, hn, ?_⟩
        rcases hnc r (by simp [hr]) hx n hn p hp hpn with hnr | heq
        · refine ⟨p, ?_, hpn⟩
          rcases List.mem_append.mp hp with h | h
          · exact List.mem_append_left _ h
          · rcases List.mem_cons.mp h with h | h
            · subst h; rw [hcx] at hnr; cases hnr
            · exact List.mem_append_right _ h
        · subst heq
          exact ⟨p, List.mem_append_right _ hr, hpn⟩
    · rename_i hu
      apply ih (c :: suf) hnc
      intro r hr hx
      rcases List.mem_cons.mp hr with h | h
      · subst h
        exact not_unattached hx (by simpa using hu)
      · exact hs r h hx

/-- `filterUnattachedRTX` does what its name says, unless RTX codecs are chained -/
theorem filterUnattachedRTX_attached {cs : List CodecP} (h : NoRtxChain cs) : RtxAttached (filterUnattachedRTX cs) := by
  rw [filterUnattachedRTX_eq]
  apply filtRev_attached
  · simpa using h
  · intro r hr; simp at hr

theorem filterUnattachedRTX_keeps {cs : List CodecP} {p : CodecP} (hp : p ∈ cs) (hx : isRTX p = false) :
    p ∈ filterUnattachedRTX cs := by
  rw [filterUnattachedRTX_eq]
  exact filtRev_keeps _ _ p (Or.inr ⟨by simpa using hp, hx⟩)

/-! ### the apt value: `strconv.Atoi` and the range test of primaryPayloadTypeForRTXExists -/

theorem aptPt_le {c : CodecP} {n : Nat} (h : aptPt c = some n) : n ≤ 255 := by
  unfold aptPt at h
  split at h
  · cases h
  · split at h
    · cases h
    · split at h
      · cases h
      · rename_i hn; cases h; omega

/-- an unsigned digit string is read as its value; every value above 255 is out of range (reported as 256) -/
theorem atoiPt_digits (ds : Str) (hne : ds ≠ []) (hd : ds.all isDigit = true) :
    atoiPt ds = some (min (digitsVal ds) 256) := by
  cases ds with
  | nil => exact absurd rfl hne
  | cons c cs =>
    have hc : isDigit c = true := by
      simp only [List.all_cons, Bool.and_eq_true] at hd; exact hd.1
    have hplus : c ≠ '+' := by intro e; subst e; revert hc; decide
    have hminus : c ≠ '-' := by intro e; subst e; revert hc; decide
    unfold atoiPt
    split
    · rename_i h; cases h; exact absurd rfl hplus
    · rename_i h; cases h; exact absurd rfl hminus
    · simp [hd]

/-- an RTX codec that stays in the list has an apt that `strconv.Atoi` reads as a number in 0..255 — whatever the
    list: an absent, non-numeric, negative or too large apt (256 + pt, 2^64 + pt, …) never survives the filter -/
theorem filtRev_rtx_has_apt : ∀ (rp suf : List CodecP) (c : CodecP), c ∈ filtRev rp suf →
    c ∈ suf ∨ (isRTX c = true → ∃ n, aptPt c = some n) := by
  intro rp
  induction rp with
  | nil => intro suf c h; exact Or.inl (by simpa [filtRev] using h)
  | cons x rp ih =>
    intro suf c h
    unfold filtRev at h
    split at h
    · exact ih suf c h
    · rename_i hu
      rcases ih (x :: suf) c h with hmem | hx
      · rcases List.mem_cons.mp hmem with hcx | hcs
        · subst hcx
          right
          intro hrtx
          obtain ⟨n, hn, _⟩ := not_unattached hrtx (by simpa using hu)
          exact ⟨n, hn⟩
        · exact Or.inl hcs
      · exact Or.inr hx

theorem filterUnattachedRTX_rtx_apt_in_range {cs : List CodecP} {c : CodecP} (hc : c ∈ filterUnattachedRTX cs)
    (hx : isRTX c = true) : ∃ n, aptPt c = some n ∧ n ≤ 255 := by
  rw [filterUnattachedRTX_eq] at hc
  rcases filtRev_rtx_has_apt _ _ c hc with h | h
  · cases h
  · obtain ⟨n, hn⟩ := h hx
    exact ⟨n, hn, aptPt_le hn⟩

/-! ### RTPTransceiver.getCodecs -/

/-- the preference loop of `getCodecs` -/
def mapPrefs (engineCodecs prefs : List CodecP) : List CodecP :=
  prefs.filterMap (fun codec =>
    let (c, mt) := fuzzySearch codec engineCodecs
    if mt = .mNone then none
    else some { codec with pt := if codec.pt = 0 then c.pt else codec.pt, fb := fbInter codec.fb c.fb })

/-- the list `getCodecs` hands to `filterUnattachedRTX` -/
def preFilter (engineCodecs prefs : List CodecP) : List CodecP :=
  if prefs.isEmpty then engineCodecs else mapPrefs engineCodecs prefs

theorem getCodecs_eq (engineCodecs prefs : List CodecP) :
    transceiverGetCodecs engineCodecs prefs = filterUnattachedRTX (preFilter engineCodecs prefs) := by
  unfold transceiverGetCodecs preFilter mapPrefs
  split <;> rfl

/-- where each entry of the preference loop's result comes from -/
theorem mem_mapPrefs {engineCodecs prefs : List CodecP} {c : CodecP} (h : c ∈ mapPrefs engineCodecs prefs) :
    ∃ p ∈ prefs, (fuzzySearch p engineCodecs).2 ≠ .mNone ∧
      c = { p with pt := if p.pt = 0 then (fuzzySearch p engineCodecs).1.pt else p.pt,
                   fb := fbInter p.fb (fuzzySearch p engineCodecs).1.fb } := by
  unfold mapPrefs at h
  rcases List.mem_filterMap.mp h with ⟨p, hp, hc⟩
  refine ⟨p, hp, ?_⟩
  generalize hf : fuzzySearch p engineCodecs = res at hc
  rcases res with ⟨l, mt⟩
  simp only at hc
  by_cases hm : mt = .mNone
  · simp [hm] at hc
  · simp only [hm, if_false, Option.some.injEq] at hc
    exact ⟨hm, hc.symm⟩

/-- preferences with explicit, distinct payload types keep them -/
theorem mapPrefs_pts_sublist (engineCodecs : List CodecP) : ∀ (prefs : List CodecP), (∀ p ∈ prefs, p.pt ≠ 0) →
    ((mapPrefs engineCodecs prefs).map (·.pt)).Sublist (prefs.map (·.pt)) := by
  intro prefs
  induction prefs with
  | nil => intro _; simp [mapPrefs]
  | cons p ps ih =>
    intro h
    have ih' := ih (fun q hq => h q (List.mem_cons_of_mem _ hq))
    have hp : p.pt ≠ 0 := h p List.mem_cons_self
    unfold mapPrefs at ih' ⊢
    rw [List.filterMap_cons]
    generalize hf : fuzzySearch p engineCodecs = res
    rcases res with ⟨l, mt⟩
    simp only
    by_cases hm : mt = .mNone
    · simp only [hm, if_true]
      exact List.Sublist.cons _ ih'
    · simp only [hm, if_false, List.map_cons, hp]
      exact List.Sublist.cons_cons _ ih'

theorem preFilter_nodup {engineCodecs prefs : List CodecP} (hp : (engineCodecs.map (·.pt)).Nodup)
    (hc : prefs ≠ [] → (∀ p ∈ prefs, p.pt ≠ 0) ∧ (prefs.map (·.pt)).Nodup) :
    ((preFilter engineCodecs prefs).map (·.pt)).Nodup := by
  unfold preFilter
  split
  · exact hp
  · rename_i hne
    have hne' : prefs ≠ [] := by intro e; apply hne; simp [e]
    exact (mapPrefs_pts_sublist engineCodecs prefs (hc hne').1).nodup (hc hne').2


/-- `NoRtxChain` from its Boolean form (for concrete lists) -/
theorem noChain_of_decide {l : List CodecP}
    (h : l.all (fun r => !isRTX r || l.all (fun p => !((aptPt r).any (· == p.pt)) || !isRTX p || p == r)) = true) :
    NoRtxChain l := by
  intro r hr hx n hn p hp hpn
  have h1 := List.all_eq_true.mp h r hr
  rw [hx] at h1
  simp only [Bool.not_true, Bool.false_or] at h1
  have h2 := List.all_eq_true.mp h1 p hp
  rw [hn] at h2
  simp only [Option.any_some, hpn.symm, beq_self_eq_true, Bool.not_true, Bool.false_or, Bool.or_eq_true,
    Bool.not_eq_true', beq_iff_eq] at h2
  rcases h2 with h2 | h2
  · exact Or.inl h2
  · exact Or.inr h2


end WebrtcVerif.Codec
