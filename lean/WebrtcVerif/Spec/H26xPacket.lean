import WebrtcVerif.Base.Bytes
/-
  Specification side of C35 (independent of the writer model): what a NAL unit is, which units are key
  frames (the property's own definition), Annex-B framing, and the RTP payload formats of RFC 6184
  (single NAL unit, STAP-A, FU-A) and RFC 7798 (single NAL unit, AP, FU) as
    * `encode…`  — packetisation plan → payloads  (used by the theorems: "every packetisation"), and
    * `decode…`  — payloads → plan                 (used by the judge on observed packets).
  Field extraction is written arithmetically here (`/`, `%`), the model uses Go's masks and shifts.
-/
namespace WebrtcVerif.H26xPacket
open WebrtcVerif.Bytes

/-- Annex-B framing with four-byte start codes -/
def annexB (nals : List Bs) : Bs := nals.flatMap (fun n => [0, 0, 0, 1] ++ n)

/-- `[0,0,1]` occurs in the unit (an emulated start code) -/
def hasStartCode : Bs → Bool
  | a :: b' :: c :: rest => (a == 0 && b' == 0 && c == 1) || hasStartCode (b' :: c :: rest)
  | _ => false

/-- a unit Annex-B can carry unambiguously: non-empty, no emulated start code, no trailing zero
    (what emulation prevention guarantees for real NAL units; the `WF` of C34) -/
def wf (n : Bs) : Bool :=
  match n.getLast? with
  | none => false
  | some l => l != 0 && !hasStartCode n

/-! ## H.264 (RFC 6184) -/

/-- `nal_unit_type`: low five bits of the header byte -/
def ntype264 (h : Byte) : Nat := h.toNat % 32

/-- a NAL unit header: forbidden_zero_bit clear and a type a single-NAL-unit packet may carry (1–23) -/
def isHdr264 (h : Byte) : Bool := h.toNat < 128 && 1 ≤ ntype264 h && ntype264 h ≤ 23

def isNal264 : Bs → Bool
  | h :: _ => isHdr264 h
  | [] => false

/-- the property's key frame: SPS (7) or IDR slice (5) -/
def key264 : Bs → Bool
  | h :: _ => ntype264 h == 7 || ntype264 h == 5
  | [] => false

/-- how consecutive NAL units are carried -/
inductive G264 where
  | single (n : Bs)
  /-- STAP-A with header byte `hdr` (type 24) aggregating `ns` -/
  | stapA (hdr : Byte) (ns : List Bs)
  /-- FU-A fragments of the unit `h :: chunks.flatten`, one packet per chunk -/
  | fuA (h : Byte) (chunks : List Bs)
  deriving DecidableEq, Repr

def G264.nals : G264 → List Bs
  | .single n => [n]
  | .stapA _ ns => ns
  | .fuA h cs => [h :: cs.flatten]

def G264.valid : G264 → Bool
  | .single n => isNal264 n
  | .stapA hdr ns => ntype264 hdr == 24 && !ns.isEmpty && ns.all (fun n => isNal264 n && n.length < 65536)
  | .fuA h cs => isHdr264 h && 2 ≤ cs.length

/-- `size(2) ‖ unit` records of an aggregation packet -/
def units (ns : List Bs) : Bs := ns.flatMap (fun n => be16 n.length ++ n)

/-- fragments after the first: the last one carries the E bit (`0x40`) -/
def fuTail (pre : Bs) (typ : Byte) : List Bs → List Bs
  | [] => []
  | [c] => [pre ++ (0x40 ||| typ) :: c]
  | c :: cs => (pre ++ typ :: c) :: fuTail pre typ cs

/-- fragments: the first carries the S bit (`0x80`); `pre` is the payload header, `typ` the unit type -/
def fuPkts (pre : Bs) (typ : Byte) : List Bs → List Bs
  | [] => []
  | c :: cs => (pre ++ (0x80 ||| typ) :: c) :: fuTail pre typ cs

def G264.encode : G264 → List Bs
  | .single n => [n]
  | .stapA hdr ns => [hdr :: units ns]
  | .fuA h cs => fuPkts [(h &&& 0xE0) ||| 28] (h &&& 0x1F) cs

def encode264 (plan : List G264) : List Bs := plan.flatMap G264.encode
def nals264 (plan : List G264) : List Bs := plan.flatMap G264.nals

/-- exact parse of `size ‖ unit` records (every byte consumed, no empty unit) -/
def splitUnits : Nat → Bs → Option (List Bs)
  | _, [] => some []
  | 0, _ => none
  | fuel + 1, s0 :: s1 :: tl =>
    let n := rd16be s0 s1
    if n = 0 ∨ tl.length < n then none
    else (splitUnits fuel (tl.drop n)).map (fun r => tl.take n :: r)
  | _ + 1, [_] => none

/-- fragment being collected: original header byte(s), packet prefix, type byte, chunks so far (reversed) -/
structure Pend where
  hdr : Bs
  pre : Bs
  typ : Byte
  rchunks : List Bs

/-- payloads → plan; `none` when the payloads are not a loss-free RFC 6184 packetisation of NAL units -/
def dec264 : Option Pend → List Bs → Option (List G264)
  | none, [] => some []
  | some _, [] => none
  | none, p :: ps =>
    match p with
    | [] => none
    | h :: tl =>
      let t := ntype264 h
      if 1 ≤ t ∧ t ≤ 23 then
        if isNal264 p then (dec264 none ps).map (fun r => .single p :: r) else none
      else if t = 24 then
        match splitUnits tl.length tl with
        | some ns =>
          if (G264.stapA h ns).valid then (dec264 none ps).map (fun r => .stapA h ns :: r) else none
        | none => none
      else if t = 28 then
        match tl with
        | fh :: c =>
          -- S set, E and R clear; F clear in the indicator
          let orig := b (h.toNat / 32 * 32 + fh.toNat % 32)
          if fh.toNat / 32 = 4 ∧ isHdr264 orig then
            dec264 (some { hdr := [orig], pre := [h], typ := b (fh.toNat % 32), rchunks := [c] }) ps
          else none
        | [] => none
      else none
  | some pd, p :: ps =>
    match p with
    | h :: fh :: c =>
      if [h] = pd.pre ∧ b (fh.toNat % 32) = pd.typ then
        if fh.toNat / 32 = 0 then dec264 (some { pd with rchunks := c :: pd.rchunks }) ps
        else if fh.toNat / 32 = 2 then
          match pd.hdr with
          | [o] => (dec264 none ps).map (fun r => .fuA o (c :: pd.rchunks).reverse :: r)
          | _ => none
        else none
      else none
    | _ => none

def decode264 (ps : List Bs) : Option (List G264) := dec264 none ps

/-! ## H.265 (RFC 7798) -/

/-- `nal_unit_type`: bits 1–6 of the first header byte -/
def ntype265 (h0 : Byte) : Nat := h0.toNat / 2 % 64

/-- first header byte of a NAL unit: F clear, a type of the HEVC specification (0–47) -/
def isHdr265 (h0 : Byte) : Bool := h0.toNat < 128 && ntype265 h0 < 48

/-- two header bytes and at least one payload byte -/
def isNal265 : Bs → Bool
  | h0 :: _ :: _ :: _ => isHdr265 h0
  | _ => false

/-- the property's key frame: VPS (32), SPS (33), PPS (34), IDR_W_RADL (19), IDR_N_LP (20) -/
def key265 : Bs → Bool
  | h0 :: _ => let t := ntype265 h0; t == 32 || t == 33 || t == 34 || t == 19 || t == 20
  | [] => false

inductive G265 where
  | single (n : Bs)
  /-- aggregation packet with payload header `a0 a1` (type 48) aggregating `ns` -/
  | ap (a0 a1 : Byte) (ns : List Bs)
  /-- fragmentation units of `h0 :: h1 :: chunks.flatten`, one packet per chunk -/
  | fu (h0 h1 : Byte) (chunks : List Bs)
  deriving DecidableEq, Repr

def G265.nals : G265 → List Bs
  | .single n => [n]
  | .ap _ _ ns => ns
  | .fu h0 h1 cs => [h0 :: h1 :: cs.flatten]

def G265.valid : G265 → Bool
  | .single n => isNal265 n
  | .ap a0 _ ns => ntype265 a0 == 48 && 2 ≤ ns.length && ns.all (fun n => isNal265 n && n.length < 65536)
  | .fu h0 h1 cs => isNal265 (h0 :: h1 :: cs.flatten) && 2 ≤ cs.length

def G265.encode : G265 → List Bs
  | .single n => [n]
  | .ap a0 a1 ns => [a0 :: a1 :: units ns]
  | .fu h0 h1 cs => fuPkts [(h0 &&& 0x81) ||| 0x62, h1] ((h0 &&& 0x7E) >>> 1) cs

def encode265 (plan : List G265) : List Bs := plan.flatMap G265.encode
def nals265 (plan : List G265) : List Bs := plan.flatMap G265.nals

def dec265 : Option Pend → List Bs → Option (List G265)
  | none, [] => some []
  | some _, [] => none
  | none, p :: ps =>
    match p with
    | h0 :: h1 :: tl =>
      let t := ntype265 h0
      if t < 48 then
        if isNal265 p then (dec265 none ps).map (fun r => .single p :: r) else none
      else if t = 48 then
        match splitUnits tl.length tl with
        | some ns =>
          if (G265.ap h0 h1 ns).valid then (dec265 none ps).map (fun r => .ap h0 h1 ns :: r) else none
        | none => none
      else if t = 49 then
        match tl with
        | fh :: c =>
          -- S set, E clear; original first byte = F/low bit of the payload header + FuType
          let orig := b (h0.toNat / 128 * 128 + fh.toNat % 64 * 2 + h0.toNat % 2)
          if fh.toNat / 64 = 2 ∧ isHdr265 orig then
            dec265 (some { hdr := [orig, h1], pre := [h0, h1], typ := b (fh.toNat % 64), rchunks := [c] }) ps
          else none
        | [] => none
      else none
    | _ => none
  | some pd, p :: ps =>
    match p with
    | h0 :: h1 :: fh :: c =>
      if [h0, h1] = pd.pre ∧ b (fh.toNat % 64) = pd.typ then
        if fh.toNat / 64 = 0 then dec265 (some { pd with rchunks := c :: pd.rchunks }) ps
        else if fh.toNat / 64 = 1 then
          match pd.hdr with
          | [o0, o1] =>
            let g := G265.fu o0 o1 (c :: pd.rchunks).reverse
            if g.valid then (dec265 none ps).map (fun r => g :: r) else none
          | _ => none
        else none
      else none
    | _ => none

def decode265 (ps : List Bs) : Option (List G265) := dec265 none ps

/-! ## statement-level definitions of `Props/C35.lean`

  How the writers' key-frame gate treats a group of a packetisation (`lk264`, `lk265` — proved to be what
  the code does: `C35_h264_written_exact`, `C35_h265_written_exact`), what is written as a consequence
  (`afterLatch`), and the decidable conditions that exclude exactly the recorded findings (`clean264`,
  `clean265`). -/

/-- Before the latch a group is ignored (`no`), or latches at its first payload and is written whole
    (`whole`), or latches at a payload that produces no output (`silent`). -/
inductive Latch | no | whole | silent
  deriving DecidableEq, Repr

def afterLatch {G : Type} (lk : G → Latch) (nl : G → List Bs) : List G → List Bs
  | [] => []
  | g :: gs =>
    match lk g with
    | .no => afterLatch lk nl gs
    | .whole => (g :: gs).flatMap nl
    | .silent => gs.flatMap nl


/-- whether the gate latches on a group: it carries a key unit and its first payload has the four bytes
    `isKeyFrame` needs -/
def latches264 : G264 → Bool
  | .single n => key264 n && decide (4 ≤ n.length)
  | .stapA _ ns => ns.any key264
  | .fuA h cs => key264 [h] && (match cs with | c :: _ => decide (2 ≤ c.length) | [] => false)

def lk264 (g : G264) : Latch := if latches264 g then .whole else .no


/-- How the H.265 gate treats a group.  Single and aggregation packets latch iff they carry a key unit.
    A fragmented unit is judged by `(fuHeader & 0x7E) >> 1`: types 38–41 look like IDR at every non-final
    fragment (latch at the start fragment), types 0–5 look like VPS/SPS/PPS at the end fragment (latch
    there, nothing of the unit is written), every other type — the real key types included — never latches. -/
def lk265 : G265 → Latch
  | .single n => if key265 n then .whole else .no
  | .ap _ _ ns => if ns.any key265 then .whole else .no
  | .fu h0 _ _ =>
    if 38 ≤ ntype265 h0 ∧ ntype265 h0 ≤ 41 then .whole
    else if ntype265 h0 ≤ 5 then .silent else .no


/-- The exclusion of the two recorded H.264 findings, as a decidable condition on the packetisation:
    in the first group that carries a key unit, that unit comes first (`h264-stap-prefix` excluded) and the
    group's first payload has at least four bytes (`h264-short-packet-not-keyframe` excluded). -/
def clean264 : List G264 → Bool
  | [] => true
  | g :: gs =>
    if g.nals.any key264 then latches264 g && (g.nals.head?.map key264).getD false
    else clean264 gs


/-- The exclusion of the two recorded H.265 findings, as a decidable condition on the packetisation:
    up to the first group that carries a key unit no fragmented unit is of a type the shifted FU mask
    mistakes for a key frame (0–5, 38–41), the first key unit is not fragmented (`h265-fu-type-bits`
    excluded), and it comes first in its group (`h265-ap-prefix` excluded). -/
def clean265 : List G265 → Bool
  | [] => true
  | g :: gs =>
    if g.nals.any key265 then
      match g with
      | .single _ => true
      | .ap _ _ ns => (ns.head?.map key265).getD false
      | .fu _ _ _ => false
    else lk265 g == .no && clean265 gs


end WebrtcVerif.H26xPacket
