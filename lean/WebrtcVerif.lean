-- Root of the library: models, property theorems, driver handlers.
import WebrtcVerif.Base.Wire
import WebrtcVerif.Base.Bytes
import WebrtcVerif.Props.C05
import WebrtcVerif.Props.C22
import WebrtcVerif.Props.C36
import WebrtcVerif.Drv.C05
import WebrtcVerif.Drv.C22
import WebrtcVerif.Drv.C36
import WebrtcVerif.Props.C40
import WebrtcVerif.Drv.C40
import WebrtcVerif.Props.C19
import WebrtcVerif.Drv.C19
import WebrtcVerif.Props.C13
import WebrtcVerif.Drv.C13
import WebrtcVerif.Props.C14
import WebrtcVerif.Drv.C14
