-- Root of the library: models, property theorems, driver handlers.
import WebrtcVerif.Base.Wire
import WebrtcVerif.Model.ConnState
import WebrtcVerif.Props.C22
import WebrtcVerif.Drv.C22
