"""Per-property registry: single source for MANIFEST.json (bin/mkmanifest) and evidence levels (bin/check)."""

TB = ("Trusted: Lean 4.33.0 kernel (axioms ≤ propext, Classical.choice, Quot.sound; no native_decide); the "
      "hand-written Lean model, tied to /repo's working tree only by the differential correspondence run "
      "(Go harness with build tag verif + wvdriver); the harness/hooks/canonicalisers. ")

# id -> dict(level, technique, text, note, assumptions, design_ref, explain)
PROPS = {
 "C05": dict(
    level="proof",
    technique="Lean 4 invariant proofs over a labelled transition system of operations.go (every interleaving of any number of enqueuers, Done/GracefulClose callers and workers) + schedule-controlled trace validation of the real queue through verifYield hooks",
    text="operations.go is modelled as a transition system whose actions are its lock-delimited critical sections (tryEnqueue, pop, entering fn, the negotiation-flag test, the deferred hand-off block, Done's waiter enqueue / wg.Wait / closed-queue drain wait, GracefulClose's close + waitUntilIdle loop). Workers are a list that tryEnqueue and the hand-off append to, so 'one item at a time' (C05_single_worker), queue order and at-most-once (C05_fifo: accepted = executed ++ held ++ queue; C05_at_most_once), exactly-once / nothing stranded (C05_exactly_once, C05_no_strand), Done-after-predecessors over a ghost snapshot (C05_done_after_predecessors, C05_done_snapshot), nothing accepted after close and close-returns-after-drain (C05_nothing_accepted_after_close, C05_close_returns_after_drain) are invariants proved by induction over Reachable, i.e. for every interleaving and any number of threads. The tie to the code is trace validation: seeded programs (1–3 enqueuers incl. ops that enqueue children, Done callers, a GracefulClose caller with late enqueues, flag setter) run on the real queue under a cooperative scheduler that releases one goroutine per lock-delimited segment; the Lean simulator, which only ever applies the proved core actions, must reproduce the observed trace, execution log and final thread states exactly, and the Lean judge re-evaluates exactly-once / order / Done / close clauses on the observed log.",
    note=TB + "Go's mutex, channel close and WaitGroup are assumed linearizable; a panicking operation is not modelled. Two genuine defects were repaired first (fix: commits 354a86d, e7da7ea) and the model mirrors the repaired code.",
    assumptions=["sync.Mutex / channel close / WaitGroup are linearizable", "operations do not panic", "each closure is enqueued once (fresh ids)"],
    design_ref="§6 C05"),
 "C19": dict(
    level="proof",
    technique="Lean 4 theorems over a model of the repository's data-channel glue (parameter mapping round trip by case analysis; read-loop identity by list induction with a termination argument for buffer doubling) + end-to-end correspondence over real loopback connections",
    text="PARTIAL by construction: the theorems cover this repository's code, the SCTP/DTLS/ICE stack is an explicit assumption. Modelled: DataChannel.open's mapping of (ordered, maxRetransmits, maxPacketLifeTime) to DCEP channel type + reliability parameter, acceptDataChannels' inverse mapping, readLoop (buffer doubling on io.ErrShortBuffer — pion/datachannel returns n = 0 then, so the loop doubles while 0 < maxMessageSize — copy-out, text/binary flag), and the Send/SendText open-state guard. C19_params_roundtrip: the remote side reconstructs exactly the creator's parameters for every valid combination; C19_recv_intact / C19_readloop_is_identity: for every list of messages of any sizes the loop delivers exactly the transport's messages, once each, in order, intact, and always terminates; C19_send_guard / C19_send_appends. Tie: one real loopback connection per op line (1–4 channels, in-band and pre-negotiated, ordered/unordered/partial-reliable, labels/protocols incl. empty and UTF-8; 5–60 text/binary messages incl. sizes 0, 65535, 65536, max−1, max, max+1 for several receiver max-message-size settings); delivered slices are retained and hashed at the end (catches buffer reuse); the Lean judge compares per-channel received lists with sent lists (lost / duplicated / reordered / corrupted) and the remote getters with the creator's parameters.",
    note=TB + "ASSUMED, not modelled: pion/sctp + pion/datachannel deliver each accepted message once, in order on ordered streams, unchanged (the run exercises them); a connection that does not come up within its deadline is reported 'inconclusive', never a violation.",
    assumptions=["the transport hands readLoop exactly the sent messages (pion/sctp, pion/datachannel, DTLS, ICE are external)",
                 "sends larger than the receiver's announced max-message-size are refused by pion/sctp"],
    design_ref="§6 C19"),
 "C22": dict(
    level="proof",
    technique="Lean 4 theorems over a model of updateConnectionState (full case analysis of the finite table; list induction for notification sequences) + exhaustive differential correspondence on all raw inputs",
    text="The switch of updateConnectionState is modelled literally in Lean; C22_aggregate_is_w3c proves it equals an independently written W3C precedence list on every named (closed, ICE, DTLS) input (the quantifier is that finite table, enumerated by case analysis), and C22_notify_only_on_change / C22_state_is_latest_aggregate prove by induction over arbitrary update sequences that the handler never sees a repeated value and the stored state is the latest aggregate. The model is tied to the code by running every raw input tuple (exhaustive) and seeded update sequences through the real function via a verif-tagged hook and comparing with the model; the Lean judge re-evaluates the W3C list on the implementation's own outputs.",
    note=TB + "Concurrent callers of updateConnectionState (check-then-act) are C21's subject, not modelled here; the handler goroutine is awaited by the hook.",
    assumptions=["updateConnectionState is called sequentially (concurrent check-then-act is C21)"],
    design_ref="§6 C22"),
 "C36": dict(
    level="proof",
    technique="Lean 4 round-trip / refusal / rejection theorems over a byte-level model of rtpdump Writer+Reader (list induction, unbounded packet lists and sizes) + seeded differential correspondence through the public API",
    text="pkg/media/rtpdump is modelled byte for byte in Lean (Header/Packet Marshal, NewWriter incl. the preamble text, NewReader incl. the preamble regular expression and bufio semantics, Reader.Next with io.ReadFull outcomes). C36_file_roundtrip proves that every representable header and every list of representable packets (any length, payloads 1..65527) reads back exactly; C36_writer_refuses_* / C36_refusal_writes_nothing prove the writer refuses what the format cannot hold without writing anything for it; C36_reader_rejects_short / C36_reader_payload_exact prove length fields below 8 are rejected and a returned payload is exactly the Length−8 bytes of its record. The model is tied to the code by writing/reading generated files with the real package (boundary sizes 0..70000, IPv4/IPv6/nil sources, out-of-range times and offsets, raw record streams with every length field 0..20, truncations, bit flips) and comparing byte hashes and parse results with the model; the Lean judge re-evaluates the three clauses on the implementation's outputs.",
    note=TB + "Reduced-precision values (sub-microsecond start, sub-millisecond offset, empty RTP payload which reads back as RTCP) are outside both the round-trip and the refusal clause and are left unconstrained. time.Time.UnixNano overflow (years < 1678 or > 2262) is outside the model.",
    assumptions=["bufio.Reader/io.ReadFull/regexp behave as modelled (exercised by the correspondence run)"],
    design_ref="§6 C36"),
 "C40": dict(
    level="other",
    technique="translator (go/ast+go/types lock-order extractor, regenerated from /repo on every run) + Lean 4 theorem: ranked lock graph ⇒ no wait-for cycle in any interleaving; data-race half searched with the Go race detector on seeded concurrent programs",
    text="PARTIAL by construction. Deadlock half — a theorem: harness/cmd/lockgraph re-extracts, from /repo's current source on every run, which lock (owner type, field) is acquired while which is held, closing over statically resolved callees of the package, and emits lean/WebrtcVerif/Generated/LockGraph.lean; C40_graph_ranked re-checks by `decide` that every edge goes strictly up in a rank (no cycle, no recursive locking), and C40_reachable_disciplined / C40_no_cycle_of_disciplined / C40_no_deadlock prove, for any number of threads and any interleaving of request/acquire/release steps that follow the extracted order, that no reachable state contains a wait-for cycle. A cycle found in the extracted graph is reported with the code sites of its edges as the failing state. Race half — NOT a theorem (it is a statement about the Go memory model over every access): seeded concurrent programs (4–12 goroutines calling AddTrack, RemoveTrack, AddTransceiverFromKind, CreateDataChannel, getters, GetStats, WriteRTP/WriteSample, Close, next to a serialized offer/answer exchange) run from a -race build with a 40 s watchdog; a race report or hang is a failing input (seed = replay).",
    note=TB + "The extractor (syntactic walk, may-hold sets, static callees only: interface calls, callbacks stored in fields and other packages are not followed; lock identity is (type, field), so two instances of one type are one lock) is trusted and sanity-checked against a hand-justified list of expected edges. Blocking on channels/WaitGroups while holding a lock is outside the lock-order model. The race detector only sees executions that happen.",
    assumptions=["static call resolution covers the nested acquisitions that matter", "race detector coverage is whatever the seeded programs reach"],
    explain="deadlock freedom of the extracted lock order is machine-checked in Lean against a lock graph regenerated from the source on every run; data-race freedom is only searched (race detector) and is not proved",
    design_ref="§6 C40"),
}

LEVELS = {k: v["level"] for k, v in PROPS.items()}
ASSUMPTIONS = {k: v.get("assumptions", []) for k, v in PROPS.items()}
EXPLAIN = {k: v.get("explain", "") for k, v in PROPS.items()}

# regenerated model parts / special builds
PRE = {"C40": "lockgraph"}
RACE = {"C40"}

NOT_APPLICABLE = {
}
